#!/usr/bin/env python3
"""Writes /verif/seeded/SUMMARY.md from seeded/*/meta.json and detected.txt (and mutants/*.detected.txt)."""
import json, glob, os, re
rows=[]
for d in sorted(glob.glob('/verif/seeded/*/')):
    mf=d+'meta.json'
    if not os.path.exists(mf): continue
    m=json.load(open(mf))
    det=open(d+'detected.txt').read() if os.path.exists(d+'detected.txt') else ''
    ex=re.search(r'exit=(\d)',det)
    cls=re.search(r'class=(\S+)',det)
    run=re.search(r'run=(\d+)',det)
    rows.append((m['id'],m.get('round',1),m['change'],m.get('needs_to_manifest','(see change)'),ex.group(1) if ex else '?',cls.group(1) if cls else '-',run.group(1) if run else '-'))
out=["# Seeded changes and what catches them","",
"Every change below compiles, passes the repository's 198 baseline tests and the 260 `--all-features` tests, and fails only its own demonstration (`confirm.txt` in each directory). `detected.txt` holds the output of the property's quick check with the change applied (`tools/seeded_eval.sh`): exit 1 = VIOLATION reported.","",
"| id | round | change | needs | quick check | oracle class | first failing run |","|---|---|---|---|---|---|---|"]
for r in rows:
    out.append("| %s | %s | %s | %s | %s | %s | %s |" % (r[0],r[1],r[2].replace('|','/'),r[3].replace('|','/'),'detected' if r[4]=='1' else ('NOT detected' if r[4]=='0' else 'exit '+r[4]),r[5],r[6]))
out+=["","## Reverted fixes (`/verif/mutants`)","","| patch | quick check | oracle class |","|---|---|---|"]
for f in sorted(glob.glob('/verif/mutants/*.detected.txt')):
    det=open(f).read()
    ex=re.search(r'exit=(\d)',det); cls=re.search(r'class=(\S+)',det)
    out.append("| %s | %s | %s |" % (os.path.basename(f).replace('.detected.txt',''),'detected' if ex and ex.group(1)=='1' else 'NOT detected',cls.group(1) if cls else '-'))
n=len(rows); nd=sum(1 for r in rows if r[4]=='1')
out.insert(2,f"{nd} of {n} seeded changes are detected by the quick check of the property they target.\n")
open('/verif/seeded/SUMMARY.md','w').write("\n".join(out)+"\n")
print(nd,"of",n,"detected")
