#!/bin/bash
# Soak on the unchanged tree, meant for `vp run`: builds the snapshot's simulator and runs many
# seeds of every check (or of those named in PROPS); prints only alarms. usage: soak.sh <runs per check> <seed> [<seed> ...]
HERE=$(pwd)
export CARGO_NET_OFFLINE=true RUST_BACKTRACE=0 VERIF_DIR=$HERE
(cd $HERE/sim && cargo build --release --offline 2>&1 | tail -1)
RUNS=$1; shift
for seed in "$@"; do
  for p in ${PROPS:-C01 C02 C03 C04 C05 C06 C07 C08 C09 C10 C11 C12 C13 C14 C15 C16 C17 C19 C20}; do
    out=$(VERIF_SEED=$seed VERIF_RUNS=$RUNS VERIF_TIER=${TIER:-quick} $HERE/sim/target/release/simcheck check --property $p --tier ${TIER:-quick} 2>&1)
    echo "$out" | grep -E "violation:|VIOLATION|HARNESS|KNOWN" | cut -c1-600
    echo "$out" | tail -1 | sed "s/^/seed=$seed /"
  done
done
echo SOAK-DONE
