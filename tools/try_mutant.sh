#!/bin/bash
# usage: try_mutant.sh <patch.diff> <property> [<property> ...]
# Applies the patch to /repo, runs the quick check of each property, and undoes the patch.
PATCH=$1; shift
cd /repo || exit 2
if ! git diff --quiet; then echo "/repo has uncommitted changes"; exit 2; fi
git apply "$PATCH" || { echo "PATCH-DOES-NOT-APPLY $PATCH"; exit 3; }
trap 'git -C /repo checkout -q -- .' EXIT
cd /verif
for p in "$@"; do
  out=$(./check "$p" quick 2>&1); code=$?
  echo "--- $p exit=$code"
  echo "$out" | grep -E "VIOLATION|violation:|HARNESS|KNOWN|verdict|note:" | cut -c1-700
done
