#!/usr/bin/env python3
"""Creates, for one round of independently written seeded changes, a scratch worktree of /repo per
property under <dir>/<id>, an output directory <dir>/<id>-out and a prompt <dir>/<id>.prompt.txt that
contains ONLY the property's text and one-line descriptions of the changes earlier rounds produced for it
(so that the new ones differ). Nothing from /verif's checks is given to the authors.
usage: gen_mutant_prompts.py <dir> <round-ordinal-word>"""
import json, glob, os, subprocess, sys
base, ordinal = sys.argv[1], sys.argv[2]
extra = sys.argv[3] if len(sys.argv) > 3 else ""
os.makedirs(base, exist_ok=True)
props = {}
for l in open('/verif/properties.jsonl'):
    p = json.loads(l); props[p['id']] = p
done = {}
for d in sorted(glob.glob('/verif/seeded/*/meta.json')):
    m = json.load(open(d))
    t = m.get('needs_to_manifest')
    done.setdefault(m['property'], []).append(m['change'] + (" [trigger: " + t + "]" if t else ""))
T = '''You are helping to evaluate a verification tool by producing realistic, subtle regressions ("seeded defects") in the Rust crate cw-multi-test (CosmWasm MultiTest: an in-process simulator of a Cosmos chain for testing multi-contract interactions). Work ONLY inside the git worktree {wt} (a checkout of the crate) and write your results into {out}. Do not read or write anything under /repo or /verif. The sandbox is offline: always pass --offline to cargo (e.g. `cd {wt} && CARGO_NET_OFFLINE=true cargo nextest run --workspace --no-fail-fast --offline`, or `cargo test --offline`); nothing can be downloaded. Build output goes to {wt}/target (default) — do not set another target dir. Note: the staking module (src/staking.rs) is only compiled with the cargo feature `staking`, stargate/ibc/gov routing with `stargate`, instantiate2/CodeInfo with `cosmwasm_1_2`, the private write-cache is reachable from tests through `cw_multi_test::verif::{{Overlay, OverlayLog, transactional}}` with feature `verif` (use `--all-features` or e.g. `--features staking,stargate,cosmwasm_2_2`).

The semantic property you must break:

---
{prop}---

Task: produce TWO different, independent source changes (mutant A and mutant B) to the crate's non-test source under {wt}/src, each of which
 1. still compiles (default features AND `--all-features`),
 2. still passes the complete existing test suite: `cargo nextest run --workspace --no-fail-fast --offline` (default features, 198 tests) AND `cargo nextest run --workspace --no-fail-fast --all-features --offline` (260 tests),
 3. genuinely violates the property above — for some input / history / message tree / failure point / configuration the observable behaviour contradicts the statement (do not stretch the statement: an honest reader must agree the statement is violated),
 4. needs something SPECIFIC and RARE to manifest. This is the {ordinal} round: the obvious code sites have been used. Look for: source files and functions the earlier changes did not touch (read the whole crate: app.rs, executor.rs, wasm.rs, bank.rs, staking.rs, transactions.rs, prefixed_storage/*, contracts.rs, module.rs, stargate.rs, custom_handler.rs, addresses.rs, checksums.rs, api.rs, app_builder.rs, featured.rs, test_helpers); realistic maintenance mistakes (a refactoring that changes an evaluation order, a "performance optimisation" with a stale cache, a copy-paste slip between two similar arms, a wrong default, an off-by-one at an exact boundary, a mistaken early return, a condition that is right for the common enum variant and wrong for a rare one); interactions of TWO or THREE features; effects that appear only on the SECOND or THIRD occurrence of something; wrong behaviour that depends on particular VALUES (lengths, byte values such as 0x00/0xFF, the number 0 or 1 or u64::MAX or u128 boundaries, equal addresses, sender == recipient, contract == admin, identical consecutive items, empty strings/vectors, upper-case vs lower-case) or on a particular NUMBER of things (more than N contracts, accounts, validators, pending entries, nesting levels). Do NOT produce a change that ordinary use would expose at once, nor one that only alters error texts, gas, or things the statement does not talk about.{extra}

Earlier rounds already produced the following changes for this property; yours must be DIFFERENT from all of them — different clause, different code site, or a different kind of trigger:
{done}
The two mutants should break different aspects of the statement and touch different code sites.

For each mutant also write a demonstration: a self-contained Rust integration test file (to be placed at {wt}/tests/demo_<a|b>.rs; it may define its own test contracts implementing `cw_multi_test::Contract` or using `ContractWrapper`) that FAILS with the change applied and PASSES on the unmodified checkout. Verify both directions yourself by actually running it (use `git stash` / `git apply -R` to switch).

Deliverables, written to {out}/ :
  a.diff, b.diff        — `git diff` of each mutant alone against the original checkout (src changes only, NOT including the demo test file)
  demo_a.rs, demo_b.rs  — the demonstration tests
  features_a.txt, features_b.txt — one line each: the value for cargo's --features needed by the demo (empty file if none)
  NOTES.md              — for each mutant: what was changed, which clause of the property it breaks, exactly what is needed for it to manifest, the commands you ran and their observed results.
When finished leave the worktree source unmodified (git checkout -- . ; remove your demo files from tests/) but keep {wt}/target. Your final message should be a short summary of the two mutants (what changed, what triggers it).
'''
for pid in sorted(props):
    if pid == 'C18':
        continue
    wt, out = f'{base}/{pid}', f'{base}/{pid}-out'
    if not os.path.isdir(wt):
        subprocess.check_call(['git', '-C', '/repo', 'worktree', 'add', '-q', '--detach', wt, 'HEAD'])
    os.makedirs(out, exist_ok=True)
    p = props[pid]
    prop = f"{p['id']} — {p['title']}\n\nStatement: {p['statement']}\n\nQuantified over: {p['quantifier']['text']}\n"
    d = "\n".join(" - " + x for x in done.get(pid, [])) + "\n"
    open(f'{base}/{pid}.prompt.txt', 'w').write(T.format(wt=wt, out=out, prop=prop, done=d, ordinal=ordinal, extra=(" " + extra if extra else "")))
print("ok")
