#!/bin/bash
# Determinism of the harness: every check is run twice with different worker counts into scratch
# output directories; the batch digests (per-run digests of everything observed, by run index) must agree.
# usage: determinism.sh [runs]   (run after ./setup.sh; does not touch /verif/evidence)
RUNS=${1:-3000}
BIN=/verif/sim/target/release/simcheck
T=$(mktemp -d)
mkdir -p $T/a $T/b; cp /verif/known_findings.json $T/a/; cp /verif/known_findings.json $T/b/
rc=0
for p in C01 C02 C03 C04 C05 C06 C07 C08 C09 C10 C11 C12 C13 C14 C15 C16 C17 C19 C20; do
  VERIF_MAX_SECS=3000 VERIF_DIR=$T/a VERIF_RUNS=$RUNS VERIF_WORKERS=16 $BIN check --property $p --tier quick >/dev/null 2>&1
  VERIF_MAX_SECS=3000 VERIF_DIR=$T/b VERIF_RUNS=$RUNS VERIF_WORKERS=3 $BIN check --property $p --tier quick >/dev/null 2>&1
  da=$(jq -r '.coverage.batch_digest + " " + (.coverage.evaluations|tostring)' $T/a/evidence/$p.json)
  db=$(jq -r '.coverage.batch_digest + " " + (.coverage.evaluations|tostring)' $T/b/evidence/$p.json)
  if [ "$da" == "$db" ]; then echo "$p deterministic: $da"; else echo "$p DIVERGES: 16 workers $da / 3 workers $db"; rc=1; fi
done
rm -rf $T
exit $rc
