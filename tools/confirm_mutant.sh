#!/bin/bash
# usage: confirm_mutant.sh <worktree> <patch.diff> <demo.rs> <features or ""> <outfile>
# Confirms in a scratch worktree: (1) existing tests pass with the change (default features and all features),
# (2) the demonstration fails with the change, (3) passes without it.
WT=$1; PATCH=$2; DEMO=$3; FEAT=$4; OUT=$5
export CARGO_NET_OFFLINE=true
cd "$WT" || exit 2
git checkout -q -- . ; rm -f tests/demo_*.rs
FEATARG=""; [ -n "$FEAT" ] && FEATARG="--features $FEAT"
{
echo "== patch: $PATCH"
git apply "$PATCH" || { echo "RESULT patch_does_not_apply"; exit 0; }
echo "-- existing suite, default features, WITH change:"
cargo nextest run --workspace --no-fail-fast --offline 2>&1 | grep -E "^\s+Summary|^error(\[|:)" | head -3
echo "-- existing suite, all features, WITH change:"
cargo nextest run --workspace --no-fail-fast --all-features --offline 2>&1 | grep -E "^\s+Summary|^error(\[|:)" | head -3
name=$(basename "$DEMO" .rs)
cp "$DEMO" tests/$name.rs
echo "-- demo WITH change:"
cargo nextest run --no-fail-fast --offline $FEATARG --test $name 2>&1 | grep -E "^\s+Summary|^error(\[|:)" | head -3
git checkout -q -- .
echo "-- demo WITHOUT change:"
cargo nextest run --no-fail-fast --offline $FEATARG --test $name 2>&1 | grep -E "^\s+Summary|^error(\[|:)" | head -3
rm -f tests/$name.rs
} > "$OUT" 2>&1
