#!/usr/bin/env python3
"""Regenerates /verif/MANIFEST.json from the table below (keeps it valid at all times)."""
import json, subprocess

HOOK_COMMITS = ["7bae296"]
BASELINE = "cd /repo && cargo nextest run --workspace --no-fail-fast --tool-config-file pb:/w/lib/nextest.toml --profile pb --test-threads 8 --offline"

TECH = "deterministic simulation with fault injection: seeded search over operation schedules, injected failure points and simulated-clock jumps, checked against an executable reference model; failures minimised to a replay file"

# id -> (engine, implemented, design_ref, text, note)
CHECKS = {
 "C06": ("kvsim-overlay", True, "DESIGN.md §4 (C06)",
   "Seeded histories of set/remove/get/range on stacks of write-caches (depth <= 6) over four kinds of base store; the injected crash is the discard (or Err out of transactional()) at any depth and moment, the sync is the commit. Every read is compared with an ordered-map model and the base is re-read after every write. Sampling, not proof: a clean batch is evidence over ~10^6 histories per quick run.",
   "Trusted: the ordered-map model (BTreeMap), cosmwasm_std::MemoryStorage as base, the pass-through wrappers of the verif feature. Bounds: key pool of 17 adversarial keys plus random keys <= 3 bytes, <= 200 ops, depth <= 6."),
 "C07": ("kvsim-prefix", True, "DESIGN.md §4 (C07)",
   "Seeded interleavings of 2-5 namespace views (adversarial paths: empty path, empty segment, 0xff tails, segments spelling other encodings, extensions, 65535-byte segments) and a raw writer that places keys at and around the encoded prefixes, all through App's public accessors on one root store; after every step the base equals a raw-key model and every view equals filter+strip of it; read-only views must reject writes. Sampling, not proof.",
   "Trusted: the raw-key model and the statement's encoding rule; MockStorage as root. Bounds: <= 5 views, <= 3 segments per path, <= 150 ops."),
}

ALL = ["C%02d" % i for i in range(1, 21)]
NA = {
 "C18": "not applicable to this technique: the address codecs (addr_validate/canonicalize/humanize/addr_make, IntoAddr/IntoBech32/IntoBech32m) are pure, stateless functions of (prefix, bytes/string); the property quantifies over inputs and configurations only, so there is no schedule, clock, fault, history or second party for a simulator to own (DESIGN.md §9)",
}

def main():
    checks = []
    na = []
    for pid in ALL:
        if pid in CHECKS and CHECKS[pid][1]:
            eng, _, ref, text, note = CHECKS[pid]
            checks.append({
                "property_id": pid,
                "quick_cmd": f"./check {pid} quick",
                "thorough_cmd": f"./check {pid} thorough",
                "evidence_file": f"/verif/evidence/{pid}.json",
                "replay_cmd_template": "./check replay {path}",
                "engine": eng,
                "level_claimed": {"category": "exploration", "text": text, "design_ref": ref},
                "level_note": note,
                "technique": TECH,
            })
        elif pid in NA:
            na.append({"property_id": pid, "reason": NA[pid]})
        else:
            na.append({"property_id": pid, "reason": "not claimed yet: the simulation check for this property is still under construction in this session (planned engine in DESIGN.md §0)"})
    engines = {}
    for c in checks:
        engines.setdefault(c["engine"], []).append(c["property_id"])
    m = {
        "version": 1,
        "setup_cmd": "./setup.sh",
        "hooks": {
            "guard": "verif (cargo feature of cw-multi-test, off by default)",
            "enable": "the simulator crate /verif/sim depends on /repo by path with features [\"verif\", \"staking\", \"stargate\", \"cosmwasm_2_2\"]",
            "baseline_off_cmd": BASELINE,
            "source_commits": HOOK_COMMITS,
            "add_only": True,
        },
        "engines": [{"name": k, "path": "/verif/sim", "serves_properties": v,
                     "kind_free_text": "in-process deterministic simulator (own PRNG, explicit op lists, reference model, ddmin shrinking, replay files)"} for k, v in sorted(engines.items())],
        "checks": checks,
        "not_applicable": na,
        "notes": "All checks: exit 0 held / 1 VIOLATION (with replay file) / 2 harness error. VERIF_SEED selects the batch (default 20261002). Known findings and fixed defects: /verif/known_findings.json. See DESIGN.md.",
    }
    json.dump(m, open("/verif/MANIFEST.json", "w"), indent=1)
    print("MANIFEST.json:", len(checks), "checks,", len(na), "not_applicable")

if __name__ == "__main__":
    main()
