#!/usr/bin/env python3
"""Regenerates /verif/MANIFEST.json from the table below (keeps it valid at all times)."""
import json, subprocess

HOOK_COMMITS = ["7bae296"]
BASELINE = "cd /repo && cargo nextest run --workspace --no-fail-fast --tool-config-file pb:/w/lib/nextest.toml --profile pb --test-threads 8 --offline"

TECH = "deterministic simulation with fault injection: seeded search over operation schedules, injected failure points and simulated-clock jumps, checked against an executable reference model; failures minimised to a replay file"

# id -> (engine, implemented, design_ref, text, note)
CHECKS = {
 "C06": ("kvsim-overlay", True, "DESIGN.md §4 (C06)",
   "Seeded histories of set/remove/get/range on stacks of write-caches (depth <= 6) over four kinds of base store; the injected crash is the discard (or Err out of transactional()) at any depth and moment, the sync is the commit. Every read (ranges also consumed through skip / nth / step_by / take / count / last) is compared with an ordered-map model and the base is re-read after every write. Sampling, not proof: a clean batch is evidence over ~10^6 histories per quick run.",
   "Trusted: the ordered-map model (BTreeMap), cosmwasm_std::MemoryStorage as base, the pass-through wrappers of the verif feature. Bounds: key pool of 17 adversarial keys plus random keys <= 3 bytes, <= 200 ops, depth <= 6."),
 "C07": ("kvsim-prefix", True, "DESIGN.md §4 (C07)",
   "Seeded interleavings of 2-5 namespace views (adversarial paths: empty path, empty segment, 0xff tails, segments spelling other encodings, extensions, 65535-byte segments) and a raw writer that places keys at and around the encoded prefixes, all through App's public accessors on one root store; after every step the base equals a raw-key model and every view equals filter+strip of it; read-only views must reject writes. Sampling, not proof.",
   "Trusted: the raw-key model and the statement's encoding rule; MockStorage as root. Bounds: <= 5 views, <= 3 segments per path, <= 150 ops."),
}

CHAIN_NOTE = "Trusted: the hand-written reference model sim/src/model/chain.rs (bank ledger, registry, per-contract KV, lite staking, wasmd dispatch rules of DESIGN.md Appendix A); SimStorage as root store; scripted contracts and recording module shims (stubs). Fresh addresses and checksums are learned from the real run and checked for freshness/stability. Bounds: trees <= 12 nodes / depth <= 4 (thorough 30 / 6), histories <= 30 ops (thorough 70), <= 8 accounts (optionally two with plain, non-bech32 names), <= 4 denominations (plus up to 130 minted to one account), amounts <= 10^6 except one mint of 2^127 per non-bonded denomination, contract addresses from the default generator or an adversarial one (case twins, successor strings, duplicates, 200-byte canonical addresses)."
def chain(text):
    return ("chainsim", True, "DESIGN.md §3", text + " The whole chain runs real code (App, Router, WasmKeeper, BankKeeper, StakeKeeper, transactional overlay, ContractWrapper) under a seeded operation schedule with injected faults; every step is refined against the reference model. Seeded sampling: evidence, not proof.", CHAIN_NOTE)
CHECKS.update({
 "C01": chain("Errors (and, rarely, crashes: a panic inside contract code that unwinds through the whole call) are injected at PRNG-chosen points of generated message trees and, for swept trees, at every single node (body and reply) and at every single module call the tree makes (bank transfers incl. attached funds, staking, custom, ibc, gov, stargate, module queries), each variant from the same restored snapshot; on Err the root store must be byte-identical to the pre-call snapshot, on Ok every modelled effect must be observable; execute_multi order and per-message responses are compared with the model."),
 "C02": chain("Failure sets over sub-message trees with all four reply_on modes, failures inside replies and failures caught at outer levels; final balances, registry and contract storage must equal the model whose sub-message execution restores a snapshot on failure; in-call reads and queries of later siblings are compared too."),
 "C03": chain("The out-of-band invocation trace (not rolled back) is compared record by record with the model's depth-first trace: reply count, position, dispatcher, id, payload, Ok/Err, events and data carried inside Reply."),
 "C04": chain("AppResponse events and data of every top-level call and the events/data inside every Reply are compared with the model's composition rules (entry-point event, wasm event, wasm-<type> events with contract address first, sub-message then reply events, dropped events of failed sub-messages, last-reply-data rule, execute/instantiate envelopes)."),
 "C05": chain("Every entry-point invocation records sender, env.contract.address, env.block, funds and (via scripted queries) its own balance; compared with the model along user->contract->contract chains, with the clock moved by update_block/set_block between transactions and funds drawn relative to the sender's balance (0, part, all, all+1)."),
 "C08": chain("Several contracts (same and different code) write adversarial keys, including suffixes of real raw root keys of bank, registry and other contracts; after every step dump_wasm_raw, WasmQuery::Raw, contract_storage accessors and in-call reads must agree with the model, and every changed root key must be explained by a modelled change of exactly that entity."),
 "C09": chain("Bank-heavy histories (mint, send, burn, contract-initiated transfers in trees that may fail, repeated denominations, zero coins, self-transfers, never-seen recipients, amounts around the balance); after every step Balance, AllBalances and Supply must agree with each other and with the model; rejected operations leave the root store byte-identical."),
 "C10": chain("Queries scripted at the entry of every node are compared with the model's transactional state at that point (funds just received, effects of completed siblings, nothing of rolled-back children); App-level query batteries of every kind are asked twice and must leave the root digest and write counter unchanged and equal the committed model state."),
 "C11": chain("Histories of store_code / store_code_with_id (gaps, 0, duplicates) / duplicate_code followed by instantiate and instantiate2 of every id (nested, failing, rolled back, salts reused, shared checksums); returned ids, usability, address freshness, duplicate rejection without effect, recorded contract data and the salted address being a function of (checksum, creator, salt) across rolled-back and repeated instantiations are checked against the model."),
 "C12": chain("Admins, former admins, strangers and contracts (via sub-message) race for Migrate / UpdateAdmin / ClearAdmin on contracts with and without admin; outcome, registry, storage and the code tag serving every later invocation are compared with the model."),
 "C13": chain("Strings from an adversarial pool (whitespace, NBSP, zero-width space, underscores in any position, 0-2 byte boundaries, unicode) are placed on attributes, event attributes and event types at every entry point and depth; the call must fail exactly when the model predicate says so, with the rollback of any other error, and accepted strings must surface unchanged."),
 "C17": chain("Recording module shims are plugged into every router seam through the real AppBuilder; behind each recorder answers either a stub with a per-run accept/fail plan or the repository's own AcceptingModule / FailingModule / StargateAccepting / StargateFailing / CachingCustomHandler (whose recorded state is compared with the recorder's); messages and queries of every kind originate at top level, from contracts typed for the chain's custom message and from Empty-typed contracts lifted by ContractWrapper; the module-call trace (kind, sender, payload, exactly once; bank queries included) and the caller-visible outcome are compared with the model."),
})
STAKE_NOTE = "Trusted: the exact integer model in sim/src/engines/stakesim.rs; shown values are read through public queries (and StakeKeeper::get_rewards when the delegation query hides a sub-token delegation). Bounds: 2-5 delegators x 2-4 validators (one run in six 6-12 x 4-9), three bonded denominations, bech32 or plain mixed-case validator names, optionally a second application with other staking parameters alive in the same thread, <= 160 steps, <= 10 simulated years, amounts <= 10^9, <= 5 slashes per validator with <= 3 decimals (keeps stakes exact multiples of 10^-15 token), tolerance 10^-9 token on reward bounds."
def stake(text):
    return ("stakesim", True, "DESIGN.md §5", text + " Discrete-event simulation: the simulator owns the block clock and jumps to unbonding maturities, one second before/after them, past several at once, by zero, or by random spans sliced into several block updates. Seeded sampling: evidence, not proof.", STAKE_NOTE)
CHECKS.update({
 "C14": stake("After every step all balances, all shown delegations (single and all-delegations queries) and the supply are compared with an exact model; valid operations must succeed, invalid ones fail with the root store byte-identical; pending unbondings are paid at the first block update at or after maturity and not before; any panic or failing block update is a violation."),
 "C15": stake("Reward bounds against exact integer accrual integrals (never over-paid; short by less than one token per withdrawal plus one while the delegation is shown), independent of how time was sliced; a withdrawal pays exactly the pending reward shown beforehand to the current withdraw address, mints exactly that, resets the pair and leaves every other pair untouched."),
 "C16": stake("At every slash all pairs, balances and pending rewards are snapshotted before and after: floor(shown x remaining) <= new <= min(shown, floor(exact stake x remaining)), p = 1 removes everything, other validators / balances / accrued rewards unchanged, pending unbondings scaled (verified by the later payout), invalid slashes rejected without effect."),
})
CHECKS["C19"] = ("twinsim", True, "DESIGN.md §6 (C19)",
  "The same explicit chainsim / stakesim operation list is executed on independent instances: sequentially, interleaved step by step by the seeded scheduler, with a differently configured noise instance in between, with the twin created late, with another instance created right after the one under test, and (one run in five) in two fresh child processes that differ only in whether the noise instance ran first. Per-step digests of everything observable and the final root store bytes must be equal. Seeded sampling: evidence, not proof.",
  "Trusted: digest collisions are ignored (64-bit FNV). A dependence on wall-clock time coarser than a run would not show (the crate never reads a clock; there is no seam to own).")
CHECKS["C20"] = ("buildsim", True, "DESIGN.md §6 (C20)",
  "A seeded schedule (subset, order, repeats) of builder steps is applied to one object: ContractWrapper with tagged handlers (all 7 with_* steps, Empty and custom chain message type, both base constructors), AppBuilder with default-typed components carrying distinguishable values (all 11 steps, run-time order), and AppBuilder with recording components in 8 compiled orders with with_block / with_api / with_storage inserted at seeded positions. The built object must hold the last supplied value per slot, init must run once against the supplied storage/api, and the probe transcript must equal the canonical order's. The schedule of order-sensitive steps is the only thing varied (no faults, no clock).",
  "Trusted: the last-step-wins table; cosmwasm_std mocks. Slots whose replacement changes the builder's type are covered by compiled orders only.")

ALL = ["C%02d" % i for i in range(1, 21)]
NA = {
 "C18": "not applicable to this technique: the address codecs (addr_validate/canonicalize/humanize/addr_make, IntoAddr/IntoBech32/IntoBech32m) are pure, stateless functions of (prefix, bytes/string); the property quantifies over inputs and configurations only, so there is no schedule, clock, fault, history or second party for a simulator to own (DESIGN.md §9)",
}

def main():
    checks = []
    na = []
    for pid in ALL:
        if pid in CHECKS and CHECKS[pid][1]:
            eng, _, ref, text, note = CHECKS[pid]
            checks.append({
                "property_id": pid,
                "quick_cmd": f"./check {pid} quick",
                "thorough_cmd": f"./check {pid} thorough",
                "evidence_file": f"/verif/evidence/{pid}.json",
                "replay_cmd_template": "./check replay {path}",
                "engine": eng,
                "level_claimed": {"category": "exploration", "text": text, "design_ref": ref},
                "level_note": note,
                "technique": TECH,
            })
        elif pid in NA:
            na.append({"property_id": pid, "reason": NA[pid]})
        else:
            na.append({"property_id": pid, "reason": "not claimed yet: the simulation check for this property is still under construction in this session (planned engine in DESIGN.md §0)"})
    engines = {}
    for c in checks:
        engines.setdefault(c["engine"], []).append(c["property_id"])
    m = {
        "version": 1,
        "setup_cmd": "./setup.sh",
        "hooks": {
            "guard": "verif (cargo feature of cw-multi-test, off by default)",
            "enable": "the simulator crate /verif/sim depends on /repo by path with features [\"verif\", \"staking\", \"stargate\", \"cosmwasm_2_2\"]",
            "baseline_off_cmd": BASELINE,
            "source_commits": HOOK_COMMITS,
            "add_only": True,
        },
        "engines": [{"name": k, "path": "/verif/sim", "serves_properties": v,
                     "kind_free_text": "in-process deterministic simulator (own PRNG, explicit op lists, reference model, ddmin shrinking, replay files)"} for k, v in sorted(engines.items())],
        "checks": checks,
        "not_applicable": na,
        "notes": "All checks: exit 0 held / 1 VIOLATION (with replay file) / 2 harness error. VERIF_SEED selects the batch (default 20261002). Known findings and fixed defects: /verif/known_findings.json. See DESIGN.md.",
    }
    json.dump(m, open("/verif/MANIFEST.json", "w"), indent=1)
    print("MANIFEST.json:", len(checks), "checks,", len(na), "not_applicable")

if __name__ == "__main__":
    main()
