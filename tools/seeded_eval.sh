#!/bin/bash
# Runs, for every seeded change under /verif/seeded, the quick check of its property with the
# change applied to /repo (undone afterwards) and records the outcome in seeded/<id>/detected.txt.
cd /verif
for d in seeded/*/; do
  id=$(basename $d); prop=${id%%-*}
  out=$(tools/try_mutant.sh /verif/$d/patch.diff $prop 2>&1)
  echo "$out" | grep -E "exit=|violation:|PATCH|HARNESS" | cut -c1-700 > $d/detected.txt
  echo "$id: $(head -1 $d/detected.txt)"
done
