#!/bin/bash
# Runs, for every seeded change under /verif/seeded (and every reverted fix under /verif/mutants),
# the quick check of its property against a scratch worktree of /repo with the change applied, and
# records the outcome in seeded/<id>/detected.txt (mutants/<name>.detected.txt). Works on scratch
# copies under /tmp (worktree of /repo HEAD + copy of /verif/sim pointing at it), removed at the end,
# so it can run next to other work; the result is the same as `tools/try_mutant.sh` on /repo itself.
# usage: seeded_eval.sh [shard] [nshards] [only-missing]     (default: shard 0 of 1; only-missing skips changes that
# already have a detected.txt - delete the file to have one evaluated again)
set -u
SHARD=${1:-0}; NSHARDS=${2:-1}; ONLY_MISSING=${3:-}
R=/tmp/evalrepo$SHARD; S=/tmp/evalsim$SHARD; O=/tmp/evalout$SHARD
rm -rf $S $O; git -C /repo worktree remove --force $R 2>/dev/null; git -C /repo worktree prune
git -C /repo worktree add -q --detach $R HEAD || exit 2
mkdir -p $S $O/evidence; cp -r /verif/sim/src /verif/sim/Cargo.lock /verif/sim/.cargo $S/
sed "s|path = \"/repo\"|path = \"$R\"|" /verif/sim/Cargo.toml > $S/Cargo.toml
cp /verif/known_findings.json $O/
export CARGO_NET_OFFLINE=true RUST_BACKTRACE=0 VERIF_DIR=$O
run_one() { # patch, property, outfile
  if ! git -C $R apply "$1"; then echo "PATCH-DOES-NOT-APPLY" > "$3"; return; fi
  if (cd $S && cargo build --release --offline >$O/build.log 2>&1); then
    out=$($S/target/release/simcheck check --property $2 --tier quick 2>&1); code=$?
    { echo "property=$2 exit=$code"; echo "$out" | grep -E "violation:|VIOLATION|HARNESS|KNOWN|note:|verdict" | sed "s|$O|/verif|g" | cut -c1-800; } > "$3"
  else
    echo "BUILD-FAILED" > "$3"
  fi
  git -C $R checkout -q -- .
}
i=0
for d in /verif/seeded/*/; do
  i=$((i+1)); [ $((i % NSHARDS)) -eq $SHARD ] || continue
  id=$(basename $d); prop=${id%%-*}
  if [ -n "$ONLY_MISSING" ] && [ -s $d/detected.txt ]; then continue; fi
  run_one $d/patch.diff $prop $d/detected.txt
  echo "$id: $(head -1 $d/detected.txt)"
done
for m in /verif/mutants/revert-fix-*.diff; do
  i=$((i+1)); [ $((i % NSHARDS)) -eq $SHARD ] || continue
  prop=$(basename $m | sed 's/revert-fix-\(C[0-9]*\)-.*/\1/')
  run_one $m $prop ${m%.diff}.detected.txt
  echo "$(basename $m): $(head -1 ${m%.diff}.detected.txt)"
done
git -C /repo worktree remove --force $R; rm -rf $S $O
echo SEEDED-EVAL-DONE shard $SHARD
