//! xoshiro256** seeded through splitmix64. The only source of randomness in the harness:
//! one integer (VERIF_SEED) plus the engine stream and the run index decide a whole run.

#[derive(Clone, Debug)]
pub struct Rng {
    s: [u64; 4],
}

fn splitmix64(x: &mut u64) -> u64 {
    *x = x.wrapping_add(0x9E37_79B9_7F4A_7C15);
    let mut z = *x;
    z = (z ^ (z >> 30)).wrapping_mul(0xBF58_476D_1CE4_E5B9);
    z = (z ^ (z >> 27)).wrapping_mul(0x94D0_49BB_1331_11EB);
    z ^ (z >> 31)
}

impl Rng {
    pub fn new(seed: u64) -> Self {
        let mut x = seed;
        let s = [
            splitmix64(&mut x),
            splitmix64(&mut x),
            splitmix64(&mut x),
            splitmix64(&mut x),
        ];
        Rng { s }
    }

    /// Independent stream for (seed, stream id, run index).
    pub fn for_run(seed: u64, stream: u64, idx: u64) -> Self {
        let mut x = seed ^ stream.wrapping_mul(0xA24B_AED4_963E_E407);
        let a = splitmix64(&mut x);
        let mut y = a ^ idx.wrapping_mul(0x9FB2_1C65_1E98_DF25);
        let b = splitmix64(&mut y);
        Rng::new(b ^ a.rotate_left(17))
    }

    pub fn next_u64(&mut self) -> u64 {
        let result = self.s[1].wrapping_mul(5).rotate_left(7).wrapping_mul(9);
        let t = self.s[1] << 17;
        self.s[2] ^= self.s[0];
        self.s[3] ^= self.s[1];
        self.s[1] ^= self.s[2];
        self.s[0] ^= self.s[3];
        self.s[2] ^= t;
        self.s[3] = self.s[3].rotate_left(45);
        result
    }

    /// Uniform in [0, n); n must be > 0.
    pub fn below(&mut self, n: u64) -> u64 {
        debug_assert!(n > 0);
        self.next_u64() % n
    }

    pub fn usize(&mut self, n: usize) -> usize {
        self.below(n as u64) as usize
    }

    /// Uniform in [lo, hi] inclusive.
    pub fn range(&mut self, lo: u64, hi: u64) -> u64 {
        if hi <= lo {
            return lo;
        }
        lo + self.below(hi - lo + 1)
    }

    /// True with probability num/den.
    pub fn chance(&mut self, num: u64, den: u64) -> bool {
        self.below(den) < num
    }

    pub fn pick<'a, T>(&mut self, xs: &'a [T]) -> &'a T {
        &xs[self.usize(xs.len())]
    }

    /// Index chosen with the given weights (at least one weight must be positive).
    pub fn weighted(&mut self, w: &[u32]) -> usize {
        let total: u64 = w.iter().map(|x| *x as u64).sum();
        let mut r = self.below(total.max(1));
        for (i, x) in w.iter().enumerate() {
            if r < *x as u64 {
                return i;
            }
            r -= *x as u64;
        }
        w.len() - 1
    }

    pub fn bytes(&mut self, len: usize) -> Vec<u8> {
        (0..len).map(|_| self.next_u64() as u8).collect()
    }

    pub fn shuffle<T>(&mut self, xs: &mut [T]) {
        for i in (1..xs.len()).rev() {
            let j = self.usize(i + 1);
            xs.swap(i, j);
        }
    }
}

/// FNV-1a, used for signatures and digests (deterministic, no std hasher state).
#[derive(Clone, Copy)]
pub struct Fnv(pub u64);

impl Default for Fnv {
    fn default() -> Self {
        Fnv(0xcbf2_9ce4_8422_2325)
    }
}

impl Fnv {
    pub fn new() -> Self {
        Self::default()
    }
    pub fn write(&mut self, bytes: &[u8]) {
        for b in bytes {
            self.0 ^= *b as u64;
            self.0 = self.0.wrapping_mul(0x0000_0100_0000_01B3);
        }
    }
    pub fn write_u64(&mut self, x: u64) {
        self.write(&x.to_le_bytes());
    }
    pub fn write_str(&mut self, s: &str) {
        self.write(s.as_bytes());
        self.write(&[0xff]);
    }
    pub fn finish(&self) -> u64 {
        self.0
    }
}

pub fn fnv_str(s: &str) -> u64 {
    let mut f = Fnv::new();
    f.write_str(s);
    f.finish()
}
