//! simcheck: deterministic simulation with fault injection for cw-multi-test.
//!   simcheck check --property Cxx --tier quick|thorough
//!   simcheck replay <file>
//!   simcheck determinism --property Cxx [--n N]

mod contract;
mod engines;
mod harness;
mod model;
mod modules;
mod ops;
mod prng;
mod resolve;
mod storage;
mod world;

use harness::*;

fn usage() -> ! {
    eprintln!("usage: simcheck check --property Cxx --tier quick|thorough | replay <file> | determinism --property Cxx [--n N]");
    std::process::exit(2)
}

fn arg_value(args: &[String], name: &str) -> Option<String> {
    args.iter().position(|a| a == name).and_then(|i| args.get(i + 1).cloned())
}

fn seed_from_env() -> u64 {
    std::env::var("VERIF_SEED")
        .ok()
        .and_then(|s| s.trim().parse::<i128>().ok())
        .map(|x| x as u64)
        .unwrap_or(20261002)
}

macro_rules! dispatch_property {
    ($prop:expr, $f:ident, $($arg:expr),*) => {
        match $prop {
            "C01" | "C02" | "C03" | "C04" | "C05" | "C08" | "C09" | "C10" | "C11" | "C12" | "C13" | "C17" => $f(&engines::chaingen::ChainSim, $($arg),*),
            "C14" | "C15" | "C16" => $f(&engines::stakesim::StakeSim, $($arg),*),
            "C20" => $f(&engines::buildsim::BuildSim, $($arg),*),
            "C19" => $f(&engines::twin::TwinSim, $($arg),*),
            "C06" => $f(&engines::kv06::Kv06, $($arg),*),
            "C07" => $f(&engines::pfx07::Pfx07, $($arg),*),
            _ => {
                eprintln!("HARNESS-ERROR: no engine for property {}", $prop);
                std::process::exit(2)
            }
        }
    };
}

macro_rules! dispatch_engine {
    ($name:expr, $f:ident, $($arg:expr),*) => {
        match $name {
            "chainsim" => $f(&engines::chaingen::ChainSim, $($arg),*),
            "stakesim" => $f(&engines::stakesim::StakeSim, $($arg),*),
            "buildsim" => $f(&engines::buildsim::BuildSim, $($arg),*),
            "twinsim" => $f(&engines::twin::TwinSim, $($arg),*),
            "kvsim-overlay" => $f(&engines::kv06::Kv06, $($arg),*),
            "kvsim-prefix" => $f(&engines::pfx07::Pfx07, $($arg),*),
            _ => {
                eprintln!("HARNESS-ERROR: unknown engine {}", $name);
                std::process::exit(2)
            }
        }
    };
}

fn do_check<E: Engine>(e: &E, cfg: &Cfg) -> i32 {
    run_check(e, cfg).exit_code
}

fn do_replay<E: Engine>(e: &E, rf: &ReplayFile, path: &str) -> i32 {
    replay(e, rf, path)
}

fn do_determinism<E: Engine>(e: &E, cfg: &Cfg, n: u64) -> i32 {
    for (idx, d) in determinism(e, cfg, n) {
        println!("{} {:016x}", idx, d);
    }
    0
}

fn main() {
    // error values of the system under test (anyhow) capture a backtrace whenever these are set, under a
    // process-wide lock: with the thousands of expected errors per second that serialises all workers
    std::env::set_var("RUST_BACKTRACE", "0");
    std::env::set_var("RUST_LIB_BACKTRACE", "0");
    silence_panics();
    let args: Vec<String> = std::env::args().collect();
    if args.len() < 2 {
        usage();
    }
    let code = match args[1].as_str() {
        "check" => {
            let property = arg_value(&args, "--property").unwrap_or_else(|| usage());
            let tier = match arg_value(&args, "--tier").or_else(|| std::env::var("VERIF_TIER").ok()).as_deref() {
                Some("thorough") => Tier::Thorough,
                _ => Tier::Quick,
            };
            let cfg = Cfg { property: property.clone(), tier, seed: seed_from_env() };
            dispatch_property!(property.as_str(), do_check, &cfg)
        }
        "replay" => {
            let path = args.get(2).cloned().unwrap_or_else(|| usage());
            let text = std::fs::read_to_string(&path).unwrap_or_else(|e| {
                eprintln!("HARNESS-ERROR: cannot read {}: {}", path, e);
                std::process::exit(2)
            });
            let rf: ReplayFile = serde_json::from_str(&text).unwrap_or_else(|e| {
                eprintln!("HARNESS-ERROR: cannot parse {}: {}", path, e);
                std::process::exit(2)
            });
            dispatch_engine!(rf.engine.as_str(), do_replay, &rf, &path)
        }
        "twin-child" => {
            let arr = args.get(2).cloned().unwrap_or_default();
            std::thread::spawn(move || engines::twin::child_main(&arr)).join().unwrap_or(2)
        }
        "determinism" => {
            let property = arg_value(&args, "--property").unwrap_or_else(|| usage());
            let n = arg_value(&args, "--n").and_then(|s| s.parse().ok()).unwrap_or(2000);
            let tier = match arg_value(&args, "--tier").as_deref() {
                Some("thorough") => Tier::Thorough,
                _ => Tier::Quick,
            };
            let cfg = Cfg { property: property.clone(), tier, seed: seed_from_env() };
            dispatch_property!(property.as_str(), do_determinism, &cfg, n)
        }
        _ => usage(),
    };
    std::process::exit(code);
}
