//! Module shims plugged into the router seams through the real AppBuilder.
//! RecBank / RecStaking / RecDistr forward to the repo's real keepers (real code runs inside);
//! RecCustom / RecIbc / RecGov / RecStargate are stubs by nature (the repo has no real
//! implementation of these). Each shim records (kind, sender, payload) and obeys the per-run
//! module fault plan.

use crate::resolve::{coins_string, SimMsg, SimQuery};
use crate::world::{Ev, World};
use anyhow::bail;
use cosmwasm_std::{
    to_json_binary, Addr, AnyMsg, Api, BankMsg, BankQuery, Binary, BlockInfo, Coin, CustomMsg,
    CustomQuery, DistributionMsg, Empty, GovMsg, GrpcQuery, IbcMsg, IbcQuery, Querier, StakingMsg,
    StakingQuery, Storage,
};
use cw_multi_test::error::AnyResult;
use cosmwasm_std::{Record, WasmMsg, WasmQuery};
use cw_multi_test::custom_handler::CachingCustomHandler;
use cw_multi_test::{Contract, ContractData, Wasm, WasmKeeper, WasmSudo};
use cw_multi_test::{
    AcceptingModule, AppResponse, Bank, BankKeeper, BankSudo, CosmosRouter, Distribution, DistributionKeeper, FailingModule, Gov,
    GovAcceptingModule, GovFailingModule, Ibc, IbcAcceptingModule, IbcFailingModule, Module, StakeKeeper, Staking, StakingSudo,
    Stargate, StargateAccepting, StargateFailing,
};

/// What answers behind a recording shim: the stub with the per-run fault plan, or one of the
/// repo's own modules (real code).
pub enum CustomInner {
    Stub,
    Accepting(AcceptingModule<SimMsg, SimQuery, Empty>),
    Failing(FailingModule<SimMsg, SimQuery, Empty>),
    Caching(CachingCustomHandler<SimMsg, SimQuery>),
}
pub enum IbcInner {
    Stub,
    Accepting(IbcAcceptingModule),
    Failing(IbcFailingModule),
}
pub enum GovInner {
    Stub,
    Accepting(GovAcceptingModule),
    Failing(GovFailingModule),
}
pub enum StargateInner {
    Stub,
    Accepting(StargateAccepting),
    Failing(StargateFailing),
}
use serde::de::DeserializeOwned;

fn stub_app_response(kind: &str, payload: &str) -> AppResponse {
    let (events, data) = crate::world::stub_response(kind, payload);
    AppResponse {
        events: events.into_iter().map(|e| cosmwasm_std::Event::new(e.ty).add_attributes(e.attrs)).collect(),
        data: data.map(Binary::from),
    }
}

fn cs(c: &[Coin]) -> String {
    coins_string(&c.iter().map(|c| (c.denom.clone(), c.amount.u128())).collect::<Vec<_>>())
}

fn evs(r: &AppResponse) -> Vec<Ev> {
    r.events
        .iter()
        .map(|e| Ev {
            ty: e.ty.clone(),
            attrs: e.attributes.iter().map(|a| (a.key.clone(), a.value.clone())).collect(),
        })
        .collect()
}

pub struct RecBank {
    pub inner: BankKeeper,
    pub world: World,
}

impl Module for RecBank {
    type ExecT = BankMsg;
    type QueryT = BankQuery;
    type SudoT = BankSudo;

    fn execute<ExecC, QueryC>(
        &self,
        api: &dyn Api,
        storage: &mut dyn Storage,
        router: &dyn CosmosRouter<ExecC = ExecC, QueryC = QueryC>,
        block: &BlockInfo,
        sender: Addr,
        msg: BankMsg,
    ) -> AnyResult<AppResponse>
    where
        ExecC: CustomMsg + DeserializeOwned + 'static,
        QueryC: CustomQuery + DeserializeOwned + 'static,
    {
        let payload = match &msg {
            BankMsg::Send { to_address, amount } => format!("send:{}:{}", to_address, cs(amount)),
            BankMsg::Burn { amount } => format!("burn:{}", cs(amount)),
            other => format!("{:?}", other),
        };
        if sender.as_str() == "staking_module" {
            // unbonding payouts are made by the block update itself, which treats a failing bank as a
            // broken configuration (it unwraps): never inject a fault there
            self.world.module_call_rec("bank", sender.as_str(), payload);
        } else if self.world.module_call("bank", sender.as_str(), payload) {
            bail!("injected bank module failure");
        }
        self.inner.execute(api, storage, router, block, sender, msg)
    }

    fn query(
        &self,
        api: &dyn Api,
        storage: &dyn Storage,
        querier: &dyn Querier,
        block: &BlockInfo,
        request: BankQuery,
    ) -> AnyResult<Binary> {
        // recorded (never faulted): which bank queries reached the configured module, with what
        #[allow(deprecated)]
        let payload = match &request {
            BankQuery::Balance { address, denom } => format!("balance:{}:{}", address, denom),
            BankQuery::AllBalances { address } => format!("all:{}", address),
            BankQuery::Supply { denom } => format!("supply:{}", denom),
            BankQuery::DenomMetadata { denom } => format!("meta:{}", denom),
            BankQuery::AllDenomMetadata { .. } => "allmeta".to_string(),
            other => format!("{:?}", other),
        };
        self.world.module_call_rec("bank.query", "", payload);
        self.inner.query(api, storage, querier, block, request)
    }

    fn sudo<ExecC, QueryC>(
        &self,
        api: &dyn Api,
        storage: &mut dyn Storage,
        router: &dyn CosmosRouter<ExecC = ExecC, QueryC = QueryC>,
        block: &BlockInfo,
        msg: BankSudo,
    ) -> AnyResult<AppResponse>
    where
        ExecC: CustomMsg + DeserializeOwned + 'static,
        QueryC: CustomQuery + DeserializeOwned + 'static,
    {
        let payload = match &msg {
            BankSudo::Mint { to_address, amount } => format!("mint:{}:{}", to_address, cs(amount)),
        };
        let _ = self.world.module_call("bank.sudo", "", payload);
        self.inner.sudo(api, storage, router, block, msg)
    }
}
impl Bank for RecBank {}

pub struct RecStaking {
    pub inner: StakeKeeper,
    pub world: World,
}

impl Module for RecStaking {
    type ExecT = StakingMsg;
    type QueryT = StakingQuery;
    type SudoT = StakingSudo;

    fn execute<ExecC, QueryC>(
        &self,
        api: &dyn Api,
        storage: &mut dyn Storage,
        router: &dyn CosmosRouter<ExecC = ExecC, QueryC = QueryC>,
        block: &BlockInfo,
        sender: Addr,
        msg: StakingMsg,
    ) -> AnyResult<AppResponse>
    where
        ExecC: CustomMsg + DeserializeOwned + 'static,
        QueryC: CustomQuery + DeserializeOwned + 'static,
    {
        let payload = match &msg {
            StakingMsg::Delegate { validator, amount } => format!("delegate:{}:{}{}", validator, amount.amount, amount.denom),
            StakingMsg::Undelegate { validator, amount } => format!("undelegate:{}:{}{}", validator, amount.amount, amount.denom),
            StakingMsg::Redelegate { src_validator, dst_validator, amount } => {
                format!("redelegate:{}:{}:{}{}", src_validator, dst_validator, amount.amount, amount.denom)
            }
            other => format!("{:?}", other),
        };
        if self.world.module_call("staking", sender.as_str(), payload) {
            bail!("injected staking module failure");
        }
        let r = self.inner.execute(api, storage, router, block, sender, msg);
        if let Ok(resp) = &r {
            self.world.0.borrow_mut().module_events.push(evs(resp));
        }
        r
    }

    fn query(
        &self,
        api: &dyn Api,
        storage: &dyn Storage,
        querier: &dyn Querier,
        block: &BlockInfo,
        request: StakingQuery,
    ) -> AnyResult<Binary> {
        self.inner.query(api, storage, querier, block, request)
    }

    fn sudo<ExecC, QueryC>(
        &self,
        api: &dyn Api,
        storage: &mut dyn Storage,
        router: &dyn CosmosRouter<ExecC = ExecC, QueryC = QueryC>,
        block: &BlockInfo,
        msg: StakingSudo,
    ) -> AnyResult<AppResponse>
    where
        ExecC: CustomMsg + DeserializeOwned + 'static,
        QueryC: CustomQuery + DeserializeOwned + 'static,
    {
        self.inner.sudo(api, storage, router, block, msg)
    }
}

impl Staking for RecStaking {
    fn process_queue<ExecC: CustomMsg, QueryC: CustomQuery>(
        &self,
        api: &dyn Api,
        storage: &mut dyn Storage,
        router: &dyn CosmosRouter<ExecC = ExecC, QueryC = QueryC>,
        block: &BlockInfo,
    ) -> AnyResult<AppResponse> {
        self.inner.process_queue(api, storage, router, block)
    }
}

pub struct RecDistr {
    pub inner: DistributionKeeper,
    pub world: World,
}

impl Module for RecDistr {
    type ExecT = DistributionMsg;
    type QueryT = Empty;
    type SudoT = Empty;

    fn execute<ExecC, QueryC>(
        &self,
        api: &dyn Api,
        storage: &mut dyn Storage,
        router: &dyn CosmosRouter<ExecC = ExecC, QueryC = QueryC>,
        block: &BlockInfo,
        sender: Addr,
        msg: DistributionMsg,
    ) -> AnyResult<AppResponse>
    where
        ExecC: CustomMsg + DeserializeOwned + 'static,
        QueryC: CustomQuery + DeserializeOwned + 'static,
    {
        let payload = match &msg {
            DistributionMsg::SetWithdrawAddress { address } => format!("set_withdraw:{}", address),
            DistributionMsg::WithdrawDelegatorReward { validator } => format!("withdraw:{}", validator),
            DistributionMsg::FundCommunityPool { amount } => format!("fund_pool:{}", cs(amount)),
            other => format!("{:?}", other),
        };
        if self.world.module_call("distribution", sender.as_str(), payload) {
            bail!("injected distribution module failure");
        }
        let r = self.inner.execute(api, storage, router, block, sender, msg);
        if let Ok(resp) = &r {
            self.world.0.borrow_mut().module_events.push(evs(resp));
        }
        r
    }

    fn query(
        &self,
        api: &dyn Api,
        storage: &dyn Storage,
        querier: &dyn Querier,
        block: &BlockInfo,
        request: Empty,
    ) -> AnyResult<Binary> {
        self.inner.query(api, storage, querier, block, request)
    }

    fn sudo<ExecC, QueryC>(
        &self,
        api: &dyn Api,
        storage: &mut dyn Storage,
        router: &dyn CosmosRouter<ExecC = ExecC, QueryC = QueryC>,
        block: &BlockInfo,
        msg: Empty,
    ) -> AnyResult<AppResponse>
    where
        ExecC: CustomMsg + DeserializeOwned + 'static,
        QueryC: CustomQuery + DeserializeOwned + 'static,
    {
        self.inner.sudo(api, storage, router, block, msg)
    }
}
impl Distribution for RecDistr {}

/// Answer of the stub modules to queries: a JSON string naming module and query.
fn stub_answer(_world: &World, kind: &str, tag: &str) -> AnyResult<Binary> {
    Ok(to_json_binary(&format!("{}:{}", kind, tag))?)
}

pub struct RecCustom {
    pub world: World,
    pub inner: CustomInner,
}

impl Module for RecCustom {
    type ExecT = SimMsg;
    type QueryT = SimQuery;
    type SudoT = Empty;

    fn execute<ExecC, QueryC>(
        &self,
        api: &dyn Api,
        storage: &mut dyn Storage,
        router: &dyn CosmosRouter<ExecC = ExecC, QueryC = QueryC>,
        block: &BlockInfo,
        sender: Addr,
        msg: SimMsg,
    ) -> AnyResult<AppResponse>
    where
        ExecC: CustomMsg + DeserializeOwned + 'static,
        QueryC: CustomQuery + DeserializeOwned + 'static,
    {
        match &self.inner {
            CustomInner::Stub => {
                if self.world.module_call("custom", sender.as_str(), msg.tag.clone()) {
                    bail!("injected custom module failure");
                }
                Ok(stub_app_response("custom", &msg.tag))
            }
            CustomInner::Accepting(m) => {
                self.world.module_call_rec("custom", sender.as_str(), msg.tag.clone());
                m.execute(api, storage, router, block, sender, msg)
            }
            CustomInner::Failing(m) => {
                self.world.module_call_rec("custom", sender.as_str(), msg.tag.clone());
                m.execute(api, storage, router, block, sender, msg)
            }
            CustomInner::Caching(m) => {
                self.world.module_call_rec("custom", sender.as_str(), msg.tag.clone());
                m.execute(api, storage, router, block, sender, msg)
            }
        }
    }

    fn query(
        &self,
        api: &dyn Api,
        storage: &dyn Storage,
        querier: &dyn Querier,
        block: &BlockInfo,
        request: SimQuery,
    ) -> AnyResult<Binary> {
        match &self.inner {
            CustomInner::Stub => {
                if self.world.module_call("custom.query", "", request.tag.clone()) {
                    bail!("injected custom query failure");
                }
                stub_answer(&self.world, "custom.query", &request.tag)
            }
            CustomInner::Accepting(m) => {
                self.world.module_call_rec("custom.query", "", request.tag.clone());
                m.query(api, storage, querier, block, request)
            }
            CustomInner::Failing(m) => {
                self.world.module_call_rec("custom.query", "", request.tag.clone());
                m.query(api, storage, querier, block, request)
            }
            CustomInner::Caching(m) => {
                self.world.module_call_rec("custom.query", "", request.tag.clone());
                m.query(api, storage, querier, block, request)
            }
        }
    }

    fn sudo<ExecC, QueryC>(
        &self,
        _api: &dyn Api,
        _storage: &mut dyn Storage,
        _router: &dyn CosmosRouter<ExecC = ExecC, QueryC = QueryC>,
        _block: &BlockInfo,
        _msg: Empty,
    ) -> AnyResult<AppResponse> {
        bail!("custom sudo not supported")
    }
}

pub struct RecIbc {
    pub world: World,
    pub inner: IbcInner,
}

impl Module for RecIbc {
    type ExecT = IbcMsg;
    type QueryT = IbcQuery;
    type SudoT = Empty;

    fn execute<ExecC, QueryC>(
        &self,
        api: &dyn Api,
        storage: &mut dyn Storage,
        router: &dyn CosmosRouter<ExecC = ExecC, QueryC = QueryC>,
        block: &BlockInfo,
        sender: Addr,
        msg: IbcMsg,
    ) -> AnyResult<AppResponse>
    where
        ExecC: CustomMsg + DeserializeOwned + 'static,
        QueryC: CustomQuery + DeserializeOwned + 'static,
    {
        let payload = match &msg {
            IbcMsg::CloseChannel { channel_id } => channel_id.clone(),
            other => format!("{:?}", other),
        };
        match &self.inner {
            IbcInner::Stub => {
                if self.world.module_call("ibc", sender.as_str(), payload.clone()) {
                    bail!("injected ibc module failure");
                }
                Ok(stub_app_response("ibc", &payload))
            }
            IbcInner::Accepting(m) => {
                self.world.module_call_rec("ibc", sender.as_str(), payload);
                m.execute(api, storage, router, block, sender, msg)
            }
            IbcInner::Failing(m) => {
                self.world.module_call_rec("ibc", sender.as_str(), payload);
                m.execute(api, storage, router, block, sender, msg)
            }
        }
    }

    fn query(
        &self,
        api: &dyn Api,
        storage: &dyn Storage,
        querier: &dyn Querier,
        block: &BlockInfo,
        request: IbcQuery,
    ) -> AnyResult<Binary> {
        let tag = match &request {
            IbcQuery::PortId {} => "port".to_string(),
            IbcQuery::Channel { channel_id, .. } => channel_id.clone(),
            other => format!("{:?}", other),
        };
        match &self.inner {
            IbcInner::Stub => {
                if self.world.module_call("ibc.query", "", tag.clone()) {
                    bail!("injected ibc query failure");
                }
                stub_answer(&self.world, "ibc.query", &tag)
            }
            IbcInner::Accepting(m) => {
                self.world.module_call_rec("ibc.query", "", tag);
                m.query(api, storage, querier, block, request)
            }
            IbcInner::Failing(m) => {
                self.world.module_call_rec("ibc.query", "", tag);
                m.query(api, storage, querier, block, request)
            }
        }
    }

    fn sudo<ExecC, QueryC>(
        &self,
        _api: &dyn Api,
        _storage: &mut dyn Storage,
        _router: &dyn CosmosRouter<ExecC = ExecC, QueryC = QueryC>,
        _block: &BlockInfo,
        _msg: Empty,
    ) -> AnyResult<AppResponse> {
        bail!("ibc sudo not supported")
    }
}
impl Ibc for RecIbc {}

pub struct RecGov {
    pub world: World,
    pub inner: GovInner,
}

impl Module for RecGov {
    type ExecT = GovMsg;
    type QueryT = Empty;
    type SudoT = Empty;

    fn execute<ExecC, QueryC>(
        &self,
        api: &dyn Api,
        storage: &mut dyn Storage,
        router: &dyn CosmosRouter<ExecC = ExecC, QueryC = QueryC>,
        block: &BlockInfo,
        sender: Addr,
        msg: GovMsg,
    ) -> AnyResult<AppResponse>
    where
        ExecC: CustomMsg + DeserializeOwned + 'static,
        QueryC: CustomQuery + DeserializeOwned + 'static,
    {
        let payload = match &msg {
            GovMsg::Vote { proposal_id, .. } => proposal_id.to_string(),
            other => format!("{:?}", other),
        };
        match &self.inner {
            GovInner::Stub => {
                if self.world.module_call("gov", sender.as_str(), payload.clone()) {
                    bail!("injected gov module failure");
                }
                Ok(stub_app_response("gov", &payload))
            }
            GovInner::Accepting(m) => {
                self.world.module_call_rec("gov", sender.as_str(), payload);
                m.execute(api, storage, router, block, sender, msg)
            }
            GovInner::Failing(m) => {
                self.world.module_call_rec("gov", sender.as_str(), payload);
                m.execute(api, storage, router, block, sender, msg)
            }
        }
    }

    fn query(
        &self,
        _api: &dyn Api,
        _storage: &dyn Storage,
        _querier: &dyn Querier,
        _block: &BlockInfo,
        _request: Empty,
    ) -> AnyResult<Binary> {
        bail!("gov has no queries")
    }

    fn sudo<ExecC, QueryC>(
        &self,
        _api: &dyn Api,
        _storage: &mut dyn Storage,
        _router: &dyn CosmosRouter<ExecC = ExecC, QueryC = QueryC>,
        _block: &BlockInfo,
        _msg: Empty,
    ) -> AnyResult<AppResponse> {
        bail!("gov sudo not supported")
    }
}
impl Gov for RecGov {}

pub struct RecStargate {
    pub world: World,
    pub inner: StargateInner,
}

impl Stargate for RecStargate {
    fn execute_stargate<ExecC, QueryC>(
        &self,
        api: &dyn Api,
        storage: &mut dyn Storage,
        router: &dyn CosmosRouter<ExecC = ExecC, QueryC = QueryC>,
        block: &BlockInfo,
        sender: Addr,
        type_url: String,
        value: Binary,
    ) -> AnyResult<AppResponse>
    where
        ExecC: CustomMsg + DeserializeOwned + 'static,
        QueryC: CustomQuery + DeserializeOwned + 'static,
    {
        let payload = format!("{}:{}", type_url, crate::storage::hex(value.as_slice()));
        match &self.inner {
            StargateInner::Stub => {
                if self.world.module_call("stargate", sender.as_str(), payload.clone()) {
                    bail!("injected stargate failure");
                }
                Ok(stub_app_response("stargate", &payload))
            }
            StargateInner::Accepting(m) => {
                self.world.module_call_rec("stargate", sender.as_str(), payload);
                m.execute_stargate(api, storage, router, block, sender, type_url, value)
            }
            StargateInner::Failing(m) => {
                self.world.module_call_rec("stargate", sender.as_str(), payload);
                m.execute_stargate(api, storage, router, block, sender, type_url, value)
            }
        }
    }

    fn query_stargate(
        &self,
        api: &dyn Api,
        storage: &dyn Storage,
        querier: &dyn Querier,
        block: &BlockInfo,
        path: String,
        data: Binary,
    ) -> AnyResult<Binary> {
        match &self.inner {
            StargateInner::Stub => {
                if self.world.module_call("stargate.query", "", path.clone()) {
                    bail!("injected stargate query failure");
                }
                stub_answer(&self.world, "stargate.query", &path)
            }
            StargateInner::Accepting(m) => {
                self.world.module_call_rec("stargate.query", "", path.clone());
                m.query_stargate(api, storage, querier, block, path, data)
            }
            StargateInner::Failing(m) => {
                self.world.module_call_rec("stargate.query", "", path.clone());
                m.query_stargate(api, storage, querier, block, path, data)
            }
        }
    }

    fn execute_any<ExecC, QueryC>(
        &self,
        api: &dyn Api,
        storage: &mut dyn Storage,
        router: &dyn CosmosRouter<ExecC = ExecC, QueryC = QueryC>,
        block: &BlockInfo,
        sender: Addr,
        msg: AnyMsg,
    ) -> AnyResult<AppResponse>
    where
        ExecC: CustomMsg + DeserializeOwned + 'static,
        QueryC: CustomQuery + DeserializeOwned + 'static,
    {
        let payload = format!("{}:{}", msg.type_url, crate::storage::hex(msg.value.as_slice()));
        match &self.inner {
            StargateInner::Stub => {
                if self.world.module_call("any", sender.as_str(), payload.clone()) {
                    bail!("injected any failure");
                }
                Ok(stub_app_response("any", &payload))
            }
            StargateInner::Accepting(m) => {
                self.world.module_call_rec("any", sender.as_str(), payload);
                m.execute_any(api, storage, router, block, sender, msg)
            }
            StargateInner::Failing(m) => {
                self.world.module_call_rec("any", sender.as_str(), payload);
                m.execute_any(api, storage, router, block, sender, msg)
            }
        }
    }

    fn query_grpc(
        &self,
        api: &dyn Api,
        storage: &dyn Storage,
        querier: &dyn Querier,
        block: &BlockInfo,
        request: GrpcQuery,
    ) -> AnyResult<Binary> {
        match &self.inner {
            StargateInner::Stub => {
                if self.world.module_call("grpc.query", "", request.path.clone()) {
                    bail!("injected grpc query failure");
                }
                stub_answer(&self.world, "grpc.query", &request.path)
            }
            StargateInner::Accepting(m) => {
                self.world.module_call_rec("grpc.query", "", request.path.clone());
                m.query_grpc(api, storage, querier, block, request)
            }
            StargateInner::Failing(m) => {
                self.world.module_call_rec("grpc.query", "", request.path.clone());
                m.query_grpc(api, storage, querier, block, request)
            }
        }
    }
}

/// Recorder in front of the repo's real WasmKeeper: every wasm message, query and sudo — from a user
/// or emitted by a contract — must pass here exactly once, with sender and payload intact.
pub struct RecWasm {
    pub inner: WasmKeeper<SimMsg, SimQuery>,
    pub world: World,
}

pub fn wasm_msg_payload(msg: &WasmMsg) -> String {
    match msg {
        WasmMsg::Execute { contract_addr, .. } => format!("execute:{}", contract_addr),
        WasmMsg::Instantiate { code_id, label, .. } => format!("instantiate:{}:{}", code_id, label),
        WasmMsg::Instantiate2 { code_id, label, salt, .. } => format!("instantiate2:{}:{}:{}", code_id, label, crate::storage::hex(salt.as_slice())),
        WasmMsg::Migrate { contract_addr, new_code_id, .. } => format!("migrate:{}:{}", contract_addr, new_code_id),
        WasmMsg::UpdateAdmin { contract_addr, admin } => format!("update_admin:{}:{}", contract_addr, admin),
        WasmMsg::ClearAdmin { contract_addr } => format!("clear_admin:{}", contract_addr),
        other => format!("{:?}", other),
    }
}

pub fn wasm_query_payload(q: &WasmQuery) -> String {
    match q {
        WasmQuery::Smart { contract_addr, .. } => format!("smart:{}", contract_addr),
        WasmQuery::Raw { contract_addr, key } => format!("raw:{}:{}", contract_addr, crate::storage::hex(key.as_slice())),
        WasmQuery::ContractInfo { contract_addr } => format!("contract_info:{}", contract_addr),
        WasmQuery::CodeInfo { code_id } => format!("code_info:{}", code_id),
        other => format!("{:?}", other),
    }
}

impl Wasm<SimMsg, SimQuery> for RecWasm {
    fn execute(
        &self,
        api: &dyn Api,
        storage: &mut dyn Storage,
        router: &dyn CosmosRouter<ExecC = SimMsg, QueryC = SimQuery>,
        block: &BlockInfo,
        sender: Addr,
        msg: WasmMsg,
    ) -> AnyResult<AppResponse> {
        if self.world.module_call("wasm", sender.as_str(), wasm_msg_payload(&msg)) {
            bail!("injected wasm module failure");
        }
        self.inner.execute(api, storage, router, block, sender, msg)
    }

    fn query(&self, api: &dyn Api, storage: &dyn Storage, querier: &dyn Querier, block: &BlockInfo, request: WasmQuery) -> AnyResult<Binary> {
        if self.world.module_call("wasm.query", "", wasm_query_payload(&request)) {
            bail!("injected wasm query failure");
        }
        self.inner.query(api, storage, querier, block, request)
    }

    fn sudo(
        &self,
        api: &dyn Api,
        storage: &mut dyn Storage,
        router: &dyn CosmosRouter<ExecC = SimMsg, QueryC = SimQuery>,
        block: &BlockInfo,
        msg: WasmSudo,
    ) -> AnyResult<AppResponse> {
        if self.world.module_call("wasm.sudo", "", msg.contract_addr.to_string()) {
            bail!("injected wasm sudo failure");
        }
        self.inner.sudo(api, storage, router, block, msg)
    }

    fn store_code(&mut self, creator: Addr, code: Box<dyn Contract<SimMsg, SimQuery>>) -> u64 {
        self.inner.store_code(creator, code)
    }

    fn store_code_with_id(&mut self, creator: Addr, code_id: u64, code: Box<dyn Contract<SimMsg, SimQuery>>) -> AnyResult<u64> {
        self.inner.store_code_with_id(creator, code_id, code)
    }

    fn duplicate_code(&mut self, code_id: u64) -> AnyResult<u64> {
        self.inner.duplicate_code(code_id)
    }

    fn contract_data(&self, storage: &dyn Storage, address: &Addr) -> AnyResult<ContractData> {
        self.inner.contract_data(storage, address)
    }

    fn dump_wasm_raw(&self, storage: &dyn Storage, address: &Addr) -> Vec<Record> {
        self.inner.dump_wasm_raw(storage, address)
    }
}
