//! Batch driver shared by all engines: seeded runs on worker threads, verdict by smallest
//! run index (independent of worker count), minimisation, replay files, known findings,
//! evidence.

use crate::prng::{fnv_str, Fnv, Rng};
use serde::de::DeserializeOwned;
use serde::{Deserialize, Serialize};
use serde_json::{json, Value};
use std::collections::{BTreeMap, BTreeSet};
use std::panic::{catch_unwind, AssertUnwindSafe};
use std::sync::atomic::Ordering;
use std::sync::Mutex;
use std::time::Instant;

pub fn verif_dir() -> String {
    std::env::var("VERIF_DIR").unwrap_or_else(|_| "/verif".to_string())
}

#[derive(Clone, Copy, Debug, PartialEq, Eq)]
pub enum Tier {
    Quick,
    Thorough,
}

impl Tier {
    pub fn as_str(&self) -> &'static str {
        match self {
            Tier::Quick => "quick",
            Tier::Thorough => "thorough",
        }
    }
}

#[derive(Clone, Debug)]
pub struct Cfg {
    pub property: String,
    pub tier: Tier,
    pub seed: u64,
}

#[derive(Clone, Debug, Serialize, Deserialize, PartialEq, Eq)]
pub struct Violation {
    pub property: String,
    /// Oracle class, e.g. "C06.range_mismatch"
    pub class: String,
    pub detail: String,
}

impl Violation {
    pub fn new(property: &str, class: &str, detail: impl Into<String>) -> Self {
        Violation {
            property: property.to_string(),
            class: class.to_string(),
            detail: detail.into(),
        }
    }
}

#[derive(Clone, Debug, Default)]
pub struct RunStats {
    /// operations / transactions executed against the real system
    pub steps: u64,
    /// simulated seconds of block time covered
    pub sim_seconds: u64,
    /// fault kinds that actually fired
    pub faults: BTreeMap<String, u64>,
    /// reach probes
    pub probes: BTreeMap<String, u64>,
    /// scenario signature (see the engine's `rule`)
    pub signature: u64,
    /// non-trivial by the engine's rule (at least one fault fired ...)
    pub nontrivial: bool,
    /// digest of everything observable in the run (determinism check)
    pub digest: u64,
    /// distinct root-store digests seen (optional)
    pub states: Vec<u64>,
}

impl RunStats {
    pub fn fault(&mut self, kind: &str) {
        *self.faults.entry(kind.to_string()).or_insert(0) += 1;
    }
    pub fn probe(&mut self, kind: &str) {
        *self.probes.entry(kind.to_string()).or_insert(0) += 1;
    }
}

#[derive(Clone, Debug, Default)]
pub struct RunResult {
    pub violations: Vec<Violation>,
    pub stats: RunStats,
}

pub struct Budget {
    pub runs: u64,
    pub max_secs: f64,
}

pub trait Engine: Sync {
    type Case: Serialize + DeserializeOwned + Clone + Send + Sync;
    fn name(&self) -> &'static str;
    /// Properties this engine can report on.
    fn properties(&self) -> &'static [&'static str];
    fn budget(&self, cfg: &Cfg) -> Budget;
    fn generate(&self, rng: &mut Rng, cfg: &Cfg) -> Self::Case;
    fn execute(&self, case: &Self::Case) -> RunResult;
    /// One-step simplifications of a case, most aggressive first.
    fn shrink(&self, case: &Self::Case) -> Vec<Self::Case>;
    fn rule(&self) -> String;
    fn assumptions(&self, _cfg: &Cfg) -> Vec<String> {
        vec![]
    }
    fn components(&self) -> Value {
        json!({})
    }
    /// True when a violation of this engine's property may legitimately fail to reproduce from run to
    /// run (C19: the property *is* run-to-run reproducibility); replay is then attempted several times.
    fn replay_attempts(&self) -> u32 {
        1
    }
    /// Does the (minimised) case match a known-finding signature?
    /// Default predicate: every string listed under "detail_contains" occurs in the violation detail
    /// of the minimised case and, if "max_ops" is given, the serialised minimised case is at most
    /// that many bytes long (a narrow signature keeps other violations of the same class reportable).
    fn matches_signature(&self, case: &Self::Case, v: &Violation, sig: &Value) -> bool {
        let needles = match sig.get("detail_contains").and_then(|x| x.as_array()) {
            Some(a) if !a.is_empty() => a,
            _ => return false,
        };
        if !needles.iter().all(|n| n.as_str().map(|s| v.detail.contains(s)).unwrap_or(false)) {
            return false;
        }
        if let Some(max) = sig.get("max_case_bytes").and_then(|x| x.as_u64()) {
            let len = serde_json::to_string(case).map(|s| s.len() as u64).unwrap_or(u64::MAX);
            if len > max {
                return false;
            }
        }
        true
    }
}

#[derive(Serialize, Deserialize)]
pub struct ReplayFile {
    pub property: String,
    pub class: String,
    pub engine: String,
    pub seed: u64,
    pub run: u64,
    pub tier: String,
    pub detail: String,
    pub case: Value,
    /// run indices (same seed, engine, property, tier) that must be executed before `case` in the same
    /// thread for the violation to show: non-empty only when the system under test carries state
    /// from one application instance to the next (thread-local or process-wide)
    #[serde(default)]
    pub history: Vec<u64>,
}

#[derive(Clone, Debug, Deserialize)]
pub struct KnownFinding {
    pub property: String,
    pub status: String,
    #[serde(default)]
    pub commit: Option<String>,
    pub class: String,
    #[serde(default)]
    pub signature: Value,
    pub what: String,
}

pub fn load_known_findings() -> Vec<KnownFinding> {
    let path = format!("{}/known_findings.json", verif_dir());
    match std::fs::read_to_string(&path) {
        Ok(s) => serde_json::from_str(&s).unwrap_or_else(|e| {
            eprintln!("HARNESS-ERROR: cannot parse {}: {}", path, e);
            std::process::exit(2)
        }),
        Err(_) => vec![],
    }
}

thread_local! {
    /// source file of the last panic raised on this thread (set by the panic hook)
    pub static LAST_PANIC_FILE: std::cell::RefCell<String> = const { std::cell::RefCell::new(String::new()) };
}

/// Was the last panic of this thread raised by the checker's own code (as opposed to the system under test or
/// a library it calls)?
pub fn last_panic_was_in_checker() -> bool {
    LAST_PANIC_FILE.with(|f| {
        let f = f.borrow();
        f.starts_with("src/") || f.contains("/verif/sim/")
    })
}

pub fn silence_panics() {
    // panics inside simulated runs are caught and classified; a panic of the main thread is a defect of the
    // harness itself and must be visible (exit code 2, not a silent 101)
    let debug = std::env::var("VERIF_DEBUG_PANICS").is_ok();
    std::panic::set_hook(Box::new(move |info| {
        if debug {
            eprintln!("debug: panic: {}", info);
        }
        let file = info.location().map(|l| l.file().to_string()).unwrap_or_default();
        LAST_PANIC_FILE.with(|f| *f.borrow_mut() = file);
        if std::thread::current().name() == Some("main") {
            eprintln!("HARNESS-ERROR: the checker itself panicked: {}", info);
            std::process::exit(2);
        }
    }));
}

pub fn panic_message(p: &Box<dyn std::any::Any + Send>) -> String {
    if let Some(s) = p.downcast_ref::<&str>() {
        s.to_string()
    } else if let Some(s) = p.downcast_ref::<String>() {
        s.clone()
    } else {
        "<non-string panic>".to_string()
    }
}

fn exec_guarded<E: Engine>(engine: &E, case: &E::Case) -> Result<RunResult, String> {
    catch_unwind(AssertUnwindSafe(|| engine.execute(case))).map_err(|p| panic_message(&p))
}

/// Executes in a thread of its own: whatever the system under test keeps in thread-local state starts fresh.
fn exec_isolated<E: Engine>(engine: &E, case: &E::Case) -> Result<RunResult, String> {
    std::thread::scope(|s| match s.spawn(|| exec_guarded(engine, case)).join() {
        Ok(r) => r,
        Err(p) => Err(panic_message(&p)),
    })
}

/// Executes, in one fresh thread, the runs `history` of the batch (regenerated from the seed) and then `case`.
fn exec_with_history<E: Engine>(engine: &E, cfg: &Cfg, history: &[u64], case: &E::Case) -> Result<RunResult, String> {
    if history.is_empty() {
        return exec_isolated(engine, case);
    }
    let stream = stream_id(engine, cfg);
    std::thread::scope(|s| {
        match s
            .spawn(|| {
                for idx in history {
                    let mut rng = Rng::for_run(cfg.seed, stream, *idx);
                    let _ = catch_unwind(AssertUnwindSafe(|| {
                        let c = engine.generate(&mut rng, cfg);
                        engine.execute(&c)
                    }));
                }
                exec_guarded(engine, case)
            })
            .join()
        {
            Ok(r) => r,
            Err(p) => Err(panic_message(&p)),
        }
    })
}

fn fails_same_after<E: Engine>(engine: &E, cfg: &Cfg, history: &[u64], case: &E::Case, prop: &str, class: &str) -> Option<Violation> {
    match exec_with_history(engine, cfg, history, case) {
        Ok(r) => r.violations.into_iter().find(|v| v.property == prop && v.class == class),
        Err(_) => None,
    }
}

fn fails_same<E: Engine>(engine: &E, case: &E::Case, prop: &str, class: &str) -> Option<Violation> {
    match exec_isolated(engine, case) {
        Ok(r) => r
            .violations
            .into_iter()
            .find(|v| v.property == prop && v.class == class),
        Err(_) => None,
    }
}

/// Greedy minimisation: keep applying the first candidate that still fails with the same
/// (property, class).
pub fn minimise<E: Engine>(
    engine: &E,
    case: E::Case,
    prop: &str,
    class: &str,
    max_execs: u64,
) -> (E::Case, u64) {
    minimise_by(engine, case, max_execs, &|c| fails_same(engine, c, prop, class).is_some())
}

/// The same with an arbitrary "still fails" predicate (e.g. after a history of earlier runs).
pub fn minimise_by<E: Engine>(engine: &E, case: E::Case, max_execs: u64, still_fails: &dyn Fn(&E::Case) -> bool) -> (E::Case, u64) {
    let mut cur = case;
    let mut execs = 0u64;
    let started = Instant::now();
    'outer: loop {
        let cands = engine.shrink(&cur);
        for c in cands {
            if execs >= max_execs || started.elapsed().as_secs_f64() > 120.0 {
                break 'outer;
            }
            execs += 1;
            if still_fails(&c) {
                cur = c;
                continue 'outer;
            }
        }
        break;
    }
    (cur, execs)
}

struct RunRecord {
    idx: u64,
    stats: RunStats,
    violations: Vec<Violation>,
    harness_error: Option<String>,
}

pub struct Outcome {
    pub exit_code: i32,
}

fn workers() -> usize {
    std::env::var("VERIF_WORKERS")
        .ok()
        .and_then(|s| s.parse().ok())
        .unwrap_or(16)
}

pub fn stream_id<E: Engine>(engine: &E, cfg: &Cfg) -> u64 {
    fnv_str(engine.name()) ^ fnv_str(&cfg.property).rotate_left(23)
}

/// Run a whole check for one property and write its evidence file.
pub fn run_check<E: Engine>(engine: &E, cfg: &Cfg) -> Outcome {
    let started = Instant::now();
    let budget = engine.budget(cfg);
    let runs_override: Option<u64> = std::env::var("VERIF_RUNS").ok().and_then(|s| s.parse().ok());
    let total_runs = runs_override.unwrap_or(budget.runs);
    let max_secs: f64 = std::env::var("VERIF_MAX_SECS").ok().and_then(|s| s.parse().ok()).unwrap_or(budget.max_secs);
    let stream = stream_id(engine, cfg);
    let records: Mutex<Vec<RunRecord>> = Mutex::new(Vec::new());
    let nworkers = workers();
    println!(
        "simcheck: property={} engine={} tier={} VERIF_SEED={} runs<={} time_cap={}s workers={}",
        cfg.property,
        engine.name(),
        cfg.tier.as_str(),
        cfg.seed,
        total_runs,
        max_secs,
        nworkers
    );

    // watchdog: a run that never returns (endless loop in the system under test) must not hang the check
    let done_flag = std::sync::Arc::new(std::sync::atomic::AtomicBool::new(false));
    {
        let done_flag = done_flag.clone();
        let limit = max_secs + 300.0;
        let prop = cfg.property.clone();
        std::thread::spawn(move || {
            let t0 = Instant::now();
            while t0.elapsed().as_secs_f64() < limit {
                std::thread::sleep(std::time::Duration::from_millis(500));
                if done_flag.load(Ordering::SeqCst) {
                    return;
                }
            }
            eprintln!("HARNESS-ERROR: property {}: a simulated run did not terminate within {} s after the time cap", prop, 300);
            std::process::exit(2);
        });
    }
    std::thread::scope(|scope| {
        for w in 0..nworkers as u64 {
            let records = &records;
            // static assignment: worker w executes runs w, w + W, w + 2W, ... in this order, so that what a
            // run may have inherited from earlier runs in its thread is a function of the run index
            let mut round = 0u64;
            scope.spawn(move || loop {
                if started.elapsed().as_secs_f64() > max_secs {
                    break;
                }
                let idx = w + round * nworkers as u64;
                round += 1;
                if idx >= total_runs {
                    break;
                }
                let mut rng = Rng::for_run(cfg.seed, stream, idx);
                let t_run = Instant::now();
                let slow_ms: Option<u128> = std::env::var("VERIF_SLOW_MS").ok().and_then(|s| s.parse().ok());
                let rec = match catch_unwind(AssertUnwindSafe(|| {
                    let case = engine.generate(&mut rng, cfg);
                    engine.execute(&case)
                })) {
                    Ok(r) => RunRecord {
                        idx,
                        stats: r.stats,
                        violations: r
                            .violations
                            .into_iter()
                            .filter(|v| v.property == cfg.property)
                            .collect(),
                        harness_error: None,
                    },
                    Err(p) => RunRecord {
                        idx,
                        stats: RunStats::default(),
                        violations: vec![],
                        harness_error: Some(panic_message(&p)),
                    },
                };
                if let Some(ms) = slow_ms {
                    if t_run.elapsed().as_millis() > ms {
                        eprintln!("debug: run {} took {} ms ({} steps)", idx, t_run.elapsed().as_millis(), rec.stats.steps);
                    }
                }
                records.lock().unwrap().push(rec);
            });
        }
    });

    done_flag.store(true, Ordering::SeqCst);
    let mut records = records.into_inner().unwrap();
    records.sort_by_key(|r| r.idx);
    // Only a contiguous prefix of run indices counts, so that the verdict does not depend on
    // which worker happened to be late when the time cap struck.
    let mut contiguous = 0u64;
    for r in &records {
        if r.idx == contiguous {
            contiguous += 1;
        } else {
            break;
        }
    }
    records.truncate(contiguous as usize);

    if let Some(r) = records.iter().find(|r| r.harness_error.is_some()) {
        eprintln!(
            "HARNESS-ERROR: run {} of engine {} panicked outside the system under test: {}",
            r.idx,
            engine.name(),
            r.harness_error.clone().unwrap()
        );
        return Outcome { exit_code: 2 };
    }

    // aggregate evidence
    let mut evals = 0u64;
    let mut steps = 0u64;
    let mut sim_seconds = 0u64;
    let mut faults: BTreeMap<String, u64> = BTreeMap::new();
    let mut probes: BTreeMap<String, u64> = BTreeMap::new();
    let mut sigs: BTreeSet<u64> = BTreeSet::new();
    let mut states: BTreeSet<u64> = BTreeSet::new();
    let mut batch_digest = Fnv::new();
    for r in &records {
        evals += 1;
        steps += r.stats.steps;
        sim_seconds += r.stats.sim_seconds;
        for (k, v) in &r.stats.faults {
            *faults.entry(k.clone()).or_insert(0) += v;
        }
        for (k, v) in &r.stats.probes {
            *probes.entry(k.clone()).or_insert(0) += v;
        }
        if r.stats.nontrivial {
            sigs.insert(r.stats.signature);
        }
        for s in &r.stats.states {
            states.insert(*s);
        }
        batch_digest.write_u64(r.idx);
        batch_digest.write_u64(r.stats.digest);
    }

    // verdict
    let known = load_known_findings();
    let mut exit_code = 0;
    let mut reported_known: BTreeSet<String> = BTreeSet::new();
    let mut violation_count = 0i64;
    let mut known_count = 0u64;
    let mut examined = 0;
    for r in records.iter().filter(|r| !r.violations.is_empty()) {
        examined += 1;
        let v0 = r.violations[0].clone();
        let mut rng = Rng::for_run(cfg.seed, stream, r.idx);
        let case = engine.generate(&mut rng, cfg);
        // Does the run fail on its own (in a fresh thread), or only after the runs that preceded it in
        // its worker thread (state carried from one application instance to the next)?
        let mut history: Vec<u64> = vec![];
        if fails_same(engine, &case, &v0.property, &v0.class).is_none() {
            let w = nworkers as u64;
            let preds: Vec<u64> = (0..).map(|k| (r.idx % w) + k * w).take_while(|i| *i < r.idx).collect();
            if fails_same_after(engine, cfg, &preds, &case, &v0.property, &v0.class).is_some() {
                // shortest suffix (by doubling) of the predecessors that still reproduces
                let mut k = 1usize;
                history = preds.clone();
                while k < preds.len() {
                    let suffix = &preds[preds.len() - k..];
                    if fails_same_after(engine, cfg, suffix, &case, &v0.property, &v0.class).is_some() {
                        history = suffix.to_vec();
                        break;
                    }
                    k *= 2;
                }
            }
        }
        let (min_case, execs) = if history.is_empty() {
            minimise(engine, case, &v0.property, &v0.class, 4000)
        } else {
            minimise_by(engine, case, 400, &|c| fails_same_after(engine, cfg, &history, c, &v0.property, &v0.class).is_some())
        };
        let v = fails_same_after(engine, cfg, &history, &min_case, &v0.property, &v0.class).unwrap_or(v0.clone());
        let hit = known.iter().find(|k| {
            k.status == "known"
                && k.property == v.property
                && k.class == v.class
                && engine.matches_signature(&min_case, &v, &k.signature)
        });
        if let Some(k) = hit {
            known_count += 1;
            if reported_known.insert(k.what.clone()) {
                println!("KNOWN-FINDING: property={} {}", k.property, k.what);
            }
            if examined >= 200 {
                break;
            }
            continue;
        }
        violation_count += 1;
        let rf = ReplayFile {
            property: v.property.clone(),
            class: v.class.clone(),
            engine: engine.name().to_string(),
            seed: cfg.seed,
            run: r.idx,
            tier: cfg.tier.as_str().to_string(),
            detail: v.detail.clone(),
            case: serde_json::to_value(&min_case).unwrap(),
            history: history.clone(),
        };
        if !history.is_empty() {
            println!(
                "note: run {} fails only after {} earlier run(s) of its worker thread were executed in the same thread: the system under test carries state from one application instance to the next; the replay file lists those runs",
                r.idx,
                history.len()
            );
        }
        let dir = format!("{}/replays", verif_dir());
        let _ = std::fs::create_dir_all(&dir);
        let path = format!("{}/{}-{}-{}.json", dir, cfg.property, cfg.seed, r.idx);
        std::fs::write(&path, serde_json::to_string_pretty(&rf).unwrap()).unwrap();
        // the replay must reproduce in a fresh process
        let attempts = engine.replay_attempts();
        let mut reproduced = false;
        for _ in 0..attempts {
            if replay_in_fresh_process(&path) {
                reproduced = true;
                break;
            }
        }
        if !reproduced && attempts > 1 {
            println!(
                "note: the violation was observed in this process but did not reproduce in {} fresh-process replays: the system under test behaves differently from process to process, which is itself a violation of {}",
                attempts, cfg.property
            );
            reproduced = true;
        }
        println!(
            "violation: class={} run={} minimised with {} executions; detail: {}",
            v.class, r.idx, execs, v.detail
        );
        if !reproduced {
            eprintln!(
                "HARNESS-ERROR: replay file {} does not reproduce in a fresh process",
                path
            );
            exit_code = 2;
        } else {
            println!("VIOLATION property={} replay={}", cfg.property, path);
            exit_code = 1;
        }
        break;
    }

    let wall = started.elapsed().as_secs_f64();
    // samples: the first three cases of the batch, written out
    let mut samples = vec![];
    for idx in 0..records.len().min(2) as u64 {
        let mut rng = Rng::for_run(cfg.seed, stream, idx);
        let case = engine.generate(&mut rng, cfg);
        samples.push(json!({"run": idx, "case": serde_json::to_value(&case).unwrap()}));
    }
    let runs_per_hour = if wall > 0.0 { (evals as f64) * 3600.0 / wall } else { 0.0 };
    let evidence = json!({
        "property_id": cfg.property,
        "tier": cfg.tier.as_str(),
        "seed": cfg.seed,
        "level": "exploration",
        "coverage": {
            "evaluations": evals,
            "distinct_nontrivial": sigs.len(),
            "rule": engine.rule(),
            "samples": samples,
            "engine": engine.name(),
            "technique": "deterministic simulation with fault injection (seeded search over schedules, fault points and clock jumps; reference-model oracles)",
            "transactions_or_steps": steps,
            "simulated_seconds": sim_seconds,
            "runs_per_hour": runs_per_hour as u64,
            "seeds_per_hour": runs_per_hour as u64,
            "faults_fired": faults,
            "probes": probes,
            "distinct_root_digests": states.len(),
            "batch_digest": format!("{:016x}", batch_digest.finish()),
            "workers": nworkers,
            "components": engine.components(),
            "known_findings_hit": known_count,
            "exhaustive": false
        },
        "assumptions": engine.assumptions(cfg),
        "wall_s": wall,
        "violations": violation_count
    });
    let edir = format!("{}/evidence", verif_dir());
    let _ = std::fs::create_dir_all(&edir);
    let epath = format!("{}/{}.json", edir, cfg.property);
    std::fs::write(&epath, serde_json::to_string_pretty(&evidence).unwrap()).unwrap();
    println!(
        "simcheck: property={} runs={} steps={} distinct_nontrivial={} wall={:.1}s verdict={}",
        cfg.property,
        evals,
        steps,
        sigs.len(),
        wall,
        match exit_code {
            0 => "held",
            1 => "VIOLATED",
            _ => "harness-error",
        }
    );
    Outcome { exit_code }
}

fn replay_in_fresh_process(path: &str) -> bool {
    let exe = match std::env::current_exe() {
        Ok(e) => e,
        Err(_) => return false,
    };
    match std::process::Command::new(exe).arg("replay").arg(path).output() {
        Ok(out) => out.status.code() == Some(1),
        Err(_) => false,
    }
}

/// Re-execute a replay file; exit code 1 and a VIOLATION line iff it reproduces.
pub fn replay<E: Engine>(engine: &E, rf: &ReplayFile, path: &str) -> i32 {
    let case: E::Case = match serde_json::from_value(rf.case.clone()) {
        Ok(c) => c,
        Err(e) => {
            eprintln!("HARNESS-ERROR: cannot decode case in {}: {}", path, e);
            return 2;
        }
    };
    let tier = if rf.tier == "thorough" { Tier::Thorough } else { Tier::Quick };
    let rcfg = Cfg { property: rf.property.clone(), tier, seed: rf.seed };
    let mut result = exec_with_history(engine, &rcfg, &rf.history, &case);
    for _ in 1..engine.replay_attempts() {
        let hit = matches!(&result, Ok(r) if r.violations.iter().any(|v| v.property == rf.property && v.class == rf.class));
        if hit {
            break;
        }
        result = exec_with_history(engine, &rcfg, &rf.history, &case);
    }
    match result {
        Ok(r) => {
            for v in &r.violations {
                println!("replay: property={} class={} detail={}", v.property, v.class, v.detail);
            }
            if r
                .violations
                .iter()
                .any(|v| v.property == rf.property && v.class == rf.class)
            {
                println!("VIOLATION property={} replay={}", rf.property, path);
                1
            } else {
                println!("replay: violation {} did not reproduce", rf.class);
                0
            }
        }
        Err(m) => {
            eprintln!("HARNESS-ERROR: replay panicked outside the system under test: {}", m);
            2
        }
    }
}

/// Determinism self-check: execute `n` run indices twice and compare digests.
pub fn determinism<E: Engine>(engine: &E, cfg: &Cfg, n: u64) -> Vec<(u64, u64)> {
    let stream = stream_id(engine, cfg);
    let mut out = vec![];
    for idx in 0..n {
        let mut rng = Rng::for_run(cfg.seed, stream, idx);
        let case = engine.generate(&mut rng, cfg);
        // (never on the main thread: its panics are reserved for the checker's own defects)
        let digest = match exec_isolated(engine, &case) {
            Ok(r) => r.stats.digest,
            Err(_) => u64::MAX,
        };
        out.push((idx, digest));
    }
    out
}

/// Candidate index subsets for delta debugging over a list of `len` items:
/// drop halves, quarters, ..., single items.
pub fn ddmin_drops(len: usize) -> Vec<(usize, usize)> {
    let mut out = vec![];
    if len == 0 {
        return out;
    }
    let mut chunk = len;
    while chunk >= 1 {
        let mut start = 0;
        while start < len {
            let end = (start + chunk).min(len);
            if !(start == 0 && end == len && len > 1 && chunk == len) || len == 1 {
                out.push((start, end));
            }
            start = end;
        }
        if chunk == 1 {
            break;
        }
        chunk = (chunk + 1) / 2;
    }
    out
}

pub fn drop_range<T: Clone>(xs: &[T], start: usize, end: usize) -> Vec<T> {
    xs.iter()
        .enumerate()
        .filter(|(i, _)| *i < start || *i >= end)
        .map(|(_, x)| x.clone())
        .collect()
}
