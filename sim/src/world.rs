//! Out-of-band world shared by the scripted contracts, the module shims and the harness.
//! It lives outside chain storage, so nothing in it is rolled back: it shows everything
//! that ran, including inside failed branches.

use crate::ops::Node;
use crate::resolve::Names;
use serde::{Deserialize, Serialize};
use std::cell::RefCell;
use std::collections::{BTreeMap, BTreeSet, VecDeque};
use std::rc::Rc;

#[derive(Clone, Debug, PartialEq, Eq, Serialize, Deserialize)]
pub struct ReplyInfo {
    pub id: u64,
    pub payload: Vec<u8>,
    pub ok: bool,
    /// events and data delivered inside Reply (Ok case)
    pub events: Vec<Ev>,
    pub data: Option<Vec<u8>>,
}

#[derive(Clone, Debug, PartialEq, Eq, Serialize, Deserialize)]
pub struct Ev {
    pub ty: String,
    pub attrs: Vec<(String, String)>,
}

/// One contract entry point invocation.
#[derive(Clone, Debug, PartialEq, Eq, Serialize, Deserialize)]
pub struct TraceRec {
    pub kind: String, // instantiate | execute | reply | sudo | migrate
    pub code_tag: u32,
    pub contract: String,
    pub height: u64,
    pub time_nanos: u64,
    pub chain_id: String,
    pub sender: String,
    pub funds: Vec<(String, u128)>,
    pub nid: u32,
    pub reply: Option<ReplyInfo>,
    /// answers to the scripted queries, in order
    pub queries: Vec<String>,
    /// answers to the scripted reads of the contract's own storage
    pub reads: Vec<String>,
    /// answers to the reads issued after the writes of the same call
    #[serde(default)]
    pub post_reads: Vec<String>,
}

#[derive(Clone, Debug, PartialEq, Eq, Serialize, Deserialize)]
pub struct ModCall {
    pub kind: String,
    pub sender: String,
    pub payload: String,
}

#[derive(Default)]
pub struct WorldInner {
    pub trace: Vec<TraceRec>,
    pub module_calls: Vec<ModCall>,
    /// events returned by the pass-through staking / distribution shims, per call
    pub module_events: Vec<Vec<Ev>>,
    /// FIFO of reply scripts per (dispatching contract, reply id)
    pub reply_plans: BTreeMap<(String, u64), VecDeque<Node>>,
    /// naming context: accounts, contract slots (bound when the instantiate entry point runs),
    /// validators, codes, denominations, raw root keys before the current step
    pub names: Names,
    /// module fault plan: (kind, n) = the n-th call (0-based) of this kind fails
    pub fault_plan: BTreeSet<(String, u32)>,
    pub call_counts: BTreeMap<String, u32>,
    pub faults_fired: BTreeMap<String, u64>,
    /// invocations of the query entry point (not part of the trace)
    pub query_calls: u64,
    /// set while the harness itself asks something through a recorder: no fault is injected then
    pub plan_suspended: bool,
    /// set while the scripted contract looks up its own balance to resolve a relative amount (part of the
    /// script interpreter, not of the scripted behaviour): such queries are not recorded
    pub rec_suspended: bool,
}

#[derive(Clone, Default)]
pub struct World(pub Rc<RefCell<WorldInner>>);

/// Snapshot of the part of the world that influences behaviour (for fault sweeps).
#[derive(Clone)]
pub struct WorldSnap {
    reply_plans: BTreeMap<(String, u64), VecDeque<Node>>,
    slots: BTreeMap<u32, String>,
    call_counts: BTreeMap<String, u32>,
}

impl World {
    pub fn new() -> Self {
        World::default()
    }

    pub fn snap(&self) -> WorldSnap {
        let w = self.0.borrow();
        WorldSnap {
            reply_plans: w.reply_plans.clone(),
            slots: w.names.slots.clone(),
            call_counts: w.call_counts.clone(),
        }
    }

    pub fn restore(&self, s: &WorldSnap) {
        let mut w = self.0.borrow_mut();
        w.reply_plans = s.reply_plans.clone();
        w.names.slots = s.slots.clone();
        w.call_counts = s.call_counts.clone();
        w.trace.clear();
        w.module_calls.clear();
        w.module_events.clear();
    }

    pub fn take_trace(&self) -> Vec<TraceRec> {
        std::mem::take(&mut self.0.borrow_mut().trace)
    }

    pub fn take_module_calls(&self) -> Vec<ModCall> {
        std::mem::take(&mut self.0.borrow_mut().module_calls)
    }

    pub fn take_module_events(&self) -> Vec<Vec<Ev>> {
        std::mem::take(&mut self.0.borrow_mut().module_events)
    }

    /// Records a module call that is answered by one of the repo's own modules (no fault plan).
    pub fn module_call_rec(&self, kind: &str, sender: &str, payload: String) {
        let mut w = self.0.borrow_mut();
        if w.rec_suspended {
            return;
        }
        w.module_calls.push(ModCall { kind: kind.to_string(), sender: sender.to_string(), payload });
        *w.call_counts.entry(kind.to_string()).or_insert(0) += 1;
    }

    /// Records a module call; returns true when the fault plan says this call must fail.
    pub fn module_call(&self, kind: &str, sender: &str, payload: String) -> bool {
        let mut w = self.0.borrow_mut();
        w.module_calls.push(ModCall {
            kind: kind.to_string(),
            sender: sender.to_string(),
            payload,
        });
        let n = {
            let c = w.call_counts.entry(kind.to_string()).or_insert(0);
            let n = *c;
            *c += 1;
            n
        };
        let fail = !w.plan_suspended && w.fault_plan.contains(&(kind.to_string(), n));
        if fail {
            *w.faults_fired.entry(format!("module_reject:{}", kind)).or_insert(0) += 1;
        }
        fail
    }
}

thread_local! {
    /// World of the run executing on this thread (function-pointer contracts built with the
    /// repo's ContractWrapper cannot capture state).
    pub static CURRENT_WORLD: RefCell<Option<World>> = const { RefCell::new(None) };
}

pub fn set_current_world(w: Option<World>) {
    CURRENT_WORLD.with(|c| *c.borrow_mut() = w);
}

pub fn current_world() -> World {
    CURRENT_WORLD.with(|c| c.borrow().clone().expect("no current world on this thread"))
}

/// What the stub behind a module recorder answers to an accepted message: a function of the message
/// alone (so the reference model predicts it): nothing, an event, data, or both.
pub fn stub_response(kind: &str, payload: &str) -> (Vec<Ev>, Option<Vec<u8>>) {
    let mut h = crate::prng::Fnv::new();
    h.write_str(kind);
    h.write_str(payload);
    let short: String = payload.chars().take(24).collect();
    // event types a module of a real chain may emit, including ones the wasm module gives a meaning to
    let x = h.finish();
    let ty = match (x >> 8) % 6 {
        0 => "message".to_string(),
        1 => "transfer".to_string(),
        2 => "wasm".to_string(),
        3 => "reply".to_string(),
        _ => format!("stub-{}", kind),
    };
    let ev = Ev { ty, attrs: vec![("payload".to_string(), short.clone())] };
    let data = format!("{}:{}", kind, short).into_bytes();
    match h.finish() % 4 {
        0 => (vec![], None),
        1 => (vec![ev], None),
        2 => (vec![], Some(data)),
        _ => (vec![ev], Some(data)),
    }
}
