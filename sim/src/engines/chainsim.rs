//! chainsim: the whole chain (real App, Router, WasmKeeper, BankKeeper, StakeKeeper,
//! DistributionKeeper, transactional overlay, prefixed storage, ContractWrapper) driven by a
//! seeded list of operations, with scripted contracts and fault-injecting module shims,
//! refined step by step against the reference model.

use crate::contract::*;
use crate::harness::*;
use crate::model::chain::*;
use crate::modules::*;
use crate::ops::*;
use crate::prng::Fnv;
use crate::resolve::*;
use crate::storage::{hex, SimStorage};
use crate::world::*;
use cosmwasm_std::testing::mock_env;
use cosmwasm_std::{Addr, BlockInfo, CosmosMsg, Decimal, Validator};
use cw_multi_test::{
    App, AppResponse, BankKeeper, BankSudo, BasicAppBuilder, DistributionKeeper, Executor, MockApiBech32,
    StakeKeeper, StakingInfo, SudoMsg, WasmKeeper, WasmSudo,
};
use serde::{Deserialize, Serialize};
use std::collections::{BTreeMap, BTreeSet};
use std::panic::{catch_unwind, AssertUnwindSafe};

pub type SimApp =
    App<RecBank, crate::contract::SimApi, SimStorage, RecCustom, RecWasm, RecStaking, RecDistr, RecIbc, RecGov, RecStargate>;

pub const PREFIXES: [&str; 4] = ["cosmwasm", "juno", "osmo", "x"];

#[derive(Clone, Debug, Serialize, Deserialize)]
pub struct Case {
    pub prefix: u8,
    pub n_accounts: u32,
    pub n_denoms: u32,
    pub n_validators: u32,
    /// initial balance of every account in every denomination (account-major)
    pub init_balances: Vec<u64>,
    /// (module kind, n): the n-th call of that kind is rejected by the shim
    pub module_faults: Vec<(String, u32)>,
    pub unbonding_secs: u64,
    /// what answers behind the recorders of custom / ibc / gov / stargate (see Model::module_cfg)
    #[serde(default)]
    pub module_cfg: [u8; 4],
    /// plug the adversarial address generator into the wasm keeper (see contract::AdvAddrGen)
    #[serde(default)]
    pub adv_addr: bool,
    /// plug in a checksum generator (the `ChecksumGenerator` seam) whose result depends on the creator
    #[serde(default)]
    pub creator_checksums: bool,
    /// the last `plain_accounts` accounts (never account 0) have plain names ("owner", and "OWNER" which differs from it only in case) as
    /// many tests use them: no valid address for the chain's Api, yet usable as sender, creator, admin
    #[serde(default)]
    pub plain_accounts: u8,
    /// the property this case is run for (empty: all). A mismatch that belongs only to OTHER properties and
    /// leaves the real chain and the model in step (an observation differs, no outcome or state does) does
    /// not end the run: the run goes on looking for this property's own symptom
    #[serde(default)]
    pub focus: String,
    /// one code is stored in the WasmKeeper BEFORE its generators are configured and before it is handed to
    /// the AppBuilder (the keeper's own builder steps must keep it)
    #[serde(default)]
    pub prestore: bool,
    /// the chain uses cosmwasm-std's own MockApi (as App::default() does) instead of the repo's MockApiBech32
    #[serde(default)]
    pub std_api: bool,
    pub ops: Vec<Op>,
}

pub struct Sim {
    pub app: SimApp,
    pub world: World,
    pub model: Model,
    pub stats: RunStats,
    pub dig: Fnv,
    pub viol: Vec<Violation>,
    /// addresses that ever received an external write or were bound to a slot
    pub touched: BTreeSet<String>,
    pub tree_sigs: Fnv,
    /// digest of everything observed so far, recorded after every step (twin comparison)
    pub step_digs: Vec<u64>,
    malformed_before: u64,
    not_admin_before: u64,
    focus: String,
    /// handle on the repo's CachingCustomHandler state, when it is plugged in
    pub caching: Option<cw_multi_test::custom_handler::CachingCustomHandlerState<SimMsg, SimQuery>>,
    pub custom_execs_seen: Vec<String>,
    pub custom_queries_seen: Vec<String>,
}

fn lp(ns: &[u8]) -> Vec<u8> {
    let mut out = vec![(ns.len() >> 8) as u8, (ns.len() & 0xff) as u8];
    out.extend_from_slice(ns);
    out
}

pub fn ev_of(e: &cosmwasm_std::Event) -> Ev {
    Ev { ty: e.ty.clone(), attrs: e.attributes.iter().map(|a| (a.key.clone(), a.value.clone())).collect() }
}

fn fmt_ev(e: &Ev) -> String {
    format!("{}{{{}}}", e.ty, e.attrs.iter().map(|(k, v)| format!("{:?}={:?}", k, v)).collect::<Vec<_>>().join(","))
}

fn fmt_evs(es: &[Ev]) -> String {
    es.iter().map(fmt_ev).collect::<Vec<_>>().join(" ")
}

pub enum RealOut<T> {
    Ok(T),
    Err(String),
    Panic(String),
}

pub fn guarded<T>(f: impl FnOnce() -> anyhow::Result<T>) -> RealOut<T> {
    match catch_unwind(AssertUnwindSafe(f)) {
        Ok(Ok(v)) => RealOut::Ok(v),
        Ok(Err(e)) => RealOut::Err(format!("{:#}", e).chars().take(300).collect()),
        Err(p) => RealOut::Panic(panic_message(&p)),
    }
}

impl Sim {
    pub fn new(case: &Case) -> Sim {
        let world = World::new();
        set_current_world(Some(world.clone()));
        let prefix: &'static str = PREFIXES[case.prefix as usize % PREFIXES.len()];
        let api = crate::contract::SimApi::new(prefix, case.std_api);
        let n_acc = case.n_accounts.clamp(1, 8);
        let n_den = case.n_denoms.clamp(1, 4);
        let n_val = case.n_validators.min(3);
        let mut names = Names { prefix: prefix.to_string(), ..Default::default() };
        let plain = (case.plain_accounts as u32).min(4).min(n_acc.saturating_sub(1));
        // (the fourth one is the empty string)
        // the third kind: a valid bech32 address of this chain written in capitals (it canonicalizes, but does
        // not validate; as a sender it is just another account)
        let shouting = api.addr_make("shouting").to_string().to_uppercase();
        for i in 0..n_acc {
            if i >= n_acc - plain {
                names.accounts.push(["owner", "OWNER", shouting.as_str(), ""][(n_acc - 1 - i) as usize].to_string());
            } else {
                names.accounts.push(api.addr_make(&format!("account{}", i)).to_string());
            }
        }
        for i in 0..24 {
            names.ghosts.push(api.addr_make(&format!("ghost{}", i)).to_string());
        }
        // ... and a few addresses that are valid on ANOTHER chain (the next address prefix): here they are invalid
        let foreign = MockApiBech32::new(PREFIXES[(case.prefix as usize + 1) % PREFIXES.len()]);
        for i in 0..3 {
            names.ghosts.push(foreign.addr_make(&format!("ghost{}", i)).to_string());
        }
        names.denoms.push("TOKEN".to_string());
        for i in 1..n_den {
            // the third denomination differs from the second one only in the case of its letters
            // ... and the fourth is none a real chain would accept (two bytes, leading digit)
            names.denoms.push(match i {
                2 => "DENOM1".to_string(),
                3 => "1z".to_string(),
                _ => format!("denom{}", i),
            });
        }
        for i in 0..n_val {
            names.validators.push(api.addr_make(&format!("validator{}", i)).to_string());
        }
        {
            let mut w = world.0.borrow_mut();
            w.names = names.clone();
            for (k, n) in &case.module_faults {
                w.fault_plan.insert((k.clone(), *n));
            }
        }
        let block = mock_env().block;
        let fallback_api = crate::contract::SimApi::new(prefix, case.std_api);
        let mut model = Model::new(names.clone(), block.chain_id.clone(), block.height, block.time.nanos());
        model.fault_plan = world.0.borrow().fault_plan.clone();
        // address of an instantiation whose entry point never ran (so that nothing could be learned):
        // ask the repo's default generator, with the model's instance count
        let adv = case.adv_addr;
        {
            let vapi = crate::contract::SimApi::new(prefix, case.std_api);
            model.addr_validator = Some(Box::new(move |a: &str| {
                use cosmwasm_std::Api;
                vapi.addr_validate(a).is_ok()
            }));
        }
        model.addr_fallback = Some(Box::new(move |code_id, instance_id, salted| {
            use cosmwasm_std::Api;
            use cw_multi_test::AddressGenerator;
            let mut dummy = SimStorage::new();
            let gen = cw_multi_test::SimpleAddressGenerator;
            match salted {
                None if adv => crate::contract::adv_address(&fallback_api, code_id, instance_id).map(|a| a.to_string()).ok(),
                None => gen.contract_address(&fallback_api, &mut dummy, code_id, instance_id).map(|a| a.to_string()).ok(),
                Some((checksum_hex, creator, salt)) => {
                    let cs = cosmwasm_std::HexBinary::from_hex(&checksum_hex).ok()?;
                    let canon = fallback_api.addr_canonicalize(&creator).ok()?;
                    gen.predictable_contract_address(&fallback_api, &mut dummy, code_id, instance_id, cs.as_slice(), &canon, &salt).map(|a| a.to_string()).ok()
                }
            }
        }));
        model.unbonding_secs = case.unbonding_secs;
        for (ai, a) in names.accounts.iter().enumerate() {
            for (di, d) in names.denoms.iter().enumerate() {
                let amt = case.init_balances.get(ai * names.denoms.len() + di).copied().unwrap_or(0) as u128;
                if amt > 0 {
                    model.s.bank.entry(a.clone()).or_default().insert(d.clone(), amt);
                }
            }
        }
        model.module_cfg = case.module_cfg;
        let mut caching = None;
        let custom_inner = match case.module_cfg[0] {
            1 => CustomInner::Accepting(cw_multi_test::AcceptingModule::new()),
            2 => CustomInner::Failing(cw_multi_test::FailingModule::new()),
            3 => {
                let h = cw_multi_test::custom_handler::CachingCustomHandler::<SimMsg, SimQuery>::new();
                caching = Some(h.state());
                CustomInner::Caching(h)
            }
            _ => CustomInner::Stub,
        };
        let ibc_inner = match case.module_cfg[1] {
            1 | 3 => IbcInner::Accepting(cw_multi_test::IbcAcceptingModule::new()),
            2 => IbcInner::Failing(cw_multi_test::IbcFailingModule::new()),
            _ => IbcInner::Stub,
        };
        let gov_inner = match case.module_cfg[2] {
            1 | 3 => GovInner::Accepting(cw_multi_test::GovAcceptingModule::new()),
            2 => GovInner::Failing(cw_multi_test::GovFailingModule::new()),
            _ => GovInner::Stub,
        };
        let sg_inner = match case.module_cfg[3] {
            1 | 3 => StargateInner::Accepting(cw_multi_test::StargateAccepting),
            2 => StargateInner::Failing(cw_multi_test::StargateFailing),
            _ => StargateInner::Stub,
        };
        let init_bank = model.s.bank.clone();
        let unbonding = case.unbonding_secs;
        let validators = names.validators.clone();
        let mut prestored: Option<u64> = None;
        let mut prestore_panic: Option<String> = None;
        let app: SimApp = BasicAppBuilder::<SimMsg, SimQuery>::new_custom()
            .with_api(api)
            .with_storage(SimStorage::new())
            .with_bank(RecBank { inner: BankKeeper::new(), world: world.clone() })
            .with_wasm(RecWasm {
                inner: {
                    let mut k = WasmKeeper::new();
                    if case.prestore {
                        use cw_multi_test::Wasm;
                        let code = make_code(CodeKind::Direct, 0, &world, None);
                        let creator = Addr::unchecked(names.accounts[0].clone());
                        // (a fresh keeper has every id free; should storing panic all the same, the run reports it)
                        match catch_unwind(AssertUnwindSafe(|| k.store_code(creator, code))) {
                            Ok(id) => prestored = Some(id),
                            Err(p) => prestore_panic = Some(panic_message(&p)),
                        }
                    }
                    // (the generators are set even when they are the defaults, so that the builder steps run)
                    let k = if case.adv_addr { k.with_address_generator(crate::contract::AdvAddrGen) } else { k.with_address_generator(cw_multi_test::SimpleAddressGenerator) };
                    if case.creator_checksums {
                        k.with_checksum_generator(crate::contract::CreatorChecksums)
                    } else {
                        k
                    }
                },
                world: world.clone(),
            })
            .with_custom(RecCustom { world: world.clone(), inner: custom_inner })
            .with_staking(RecStaking { inner: StakeKeeper::new(), world: world.clone() })
            .with_distribution(RecDistr { inner: DistributionKeeper::new(), world: world.clone() })
            .with_ibc(RecIbc { world: world.clone(), inner: ibc_inner })
            .with_gov(RecGov { world: world.clone(), inner: gov_inner })
            .with_stargate(RecStargate { world: world.clone(), inner: sg_inner })
            .build(|router, api, storage| {
                for (a, m) in &init_bank {
                    let coins: Vec<_> = m.iter().map(|(d, x)| cosmwasm_std::coin(*x, d.clone())).collect();
                    router.bank.inner.init_balance(storage, &Addr::unchecked(a.clone()), coins).unwrap();
                }
                router
                    .staking
                    .inner
                    .setup(storage, StakingInfo { bonded_denom: "TOKEN".to_string(), unbonding_time: unbonding, apr: Decimal::zero() })
                    .unwrap();
                let block = mock_env().block;
                for v in &validators {
                    router
                        .staking
                        .inner
                        .add_validator(api, storage, &block, Validator::create(v.clone(), Decimal::percent(5), Decimal::percent(20), Decimal::percent(1)))
                        .unwrap();
                }
            });
        let mut early: Vec<(String, String)> = vec![];
        if let Some(p) = prestore_panic {
            early.push(("panic".to_string(), format!("storing the first code in a fresh WasmKeeper panicked: {}", p)));
        }
        if let Some(id) = prestored {
            // the code stored in the keeper before it was configured: id 1, usable like any other
            let creator = names.accounts[0].clone();
            world.0.borrow_mut().plan_suspended = true;
            let info = app.wrap().query_wasm_code_info(id);
            world.0.borrow_mut().plan_suspended = false;
            let _ = world.take_module_calls();
            let checksum = match info {
                Ok(i) => {
                    if i.creator.as_str() != creator {
                        early.push(("code_info".to_string(), format!("the code stored in the keeper before the app was built reports creator {} (expected {})", i.creator, creator)));
                    }
                    i.checksum.to_hex()
                }
                Err(e) => {
                    early.push(("code_info".to_string(), format!("the code stored in the keeper before its generators were set (id {}) is gone after the build: {}", id, e)));
                    String::new()
                }
            };
            if id != 1 {
                early.push(("code_id".to_string(), format!("the first code stored in a fresh keeper got id {}", id)));
            }
            model.codes.insert(id, MCode { tag: 0, kind: CodeKind::Direct, creator, checksum });
            model.names.codes.push(id);
            world.0.borrow_mut().names.codes.push(id);
        }
        let mut sim = Sim {
            app,
            world,
            model,
            stats: RunStats::default(),
            dig: Fnv::new(),
            viol: vec![],
            touched: BTreeSet::new(),
            tree_sigs: Fnv::new(),
            step_digs: vec![],
            malformed_before: 0,
            not_admin_before: 0,
            focus: case.focus.clone(),
            caching,
            custom_execs_seen: vec![],
            custom_queries_seen: vec![],
        };
        for (class, detail) in early {
            sim.v(&["C11", "C20", "C19"], &class, detail);
        }
        sim
    }

    /// Function-pointer contracts find their world through a thread-local: point it at this instance.
    pub fn activate(&self) {
        set_current_world(Some(self.world.clone()));
    }

    fn v(&mut self, props: &[&str], class: &str, detail: String) {
        const SOFT: [&str; 19] = [
            "module_call_mismatch",
            "caching_handler",
            "events_mismatch",
            "data_mismatch",
            "sender",
            "funds",
            "block",
            "reply_id_payload",
            "reply_events",
            "reply_data",
            "in_tx_query",
            "in_call_read",
            "read_back",
            "query_answer",
            "query_not_repeatable",
            "accessor_mismatch",
            "code_info",
            "code_checksum",
            "served_by_wrong_code",
        ];
        if !self.focus.is_empty() && !props.contains(&self.focus.as_str()) && SOFT.contains(&class) {
            self.stats.probe("foreign_observation_mismatch_passed_over");
            return;
        }
        for p in props {
            let cl = format!("{}.{}", p, class);
            if !self.viol.iter().any(|x| x.property == *p) {
                self.viol.push(Violation::new(p, &cl, detail.clone()));
            }
        }
    }

    fn sender(&self, i: u32) -> String {
        self.model.names.target(&Target::Account(i), "")
    }

    fn resolve_top(&self, sender: &str, m: &MsgSpec) -> CMsg {
        let s = &self.model.s;
        let bal = |d: &str| s.balance(sender, d);
        resolve_msg(&self.model.names, m, sender, &bal)
    }

    fn malformed_count(&self) -> u64 {
        self.model.faults.iter().filter(|(k, _)| k.starts_with("malformed_response")).map(|(_, v)| *v).sum()
    }

    fn not_admin_count(&self) -> u64 {
        self.model.faults.get("not_admin").copied().unwrap_or(0)
    }

    /// Properties a wrong number or order of replies is attributed to: a malformed response is "the same
    /// as any other contract error", so when one occurred in this step the reply it must (or must
    /// not) trigger belongs to C13 as well.
    fn reply_props(&self) -> Vec<&'static str> {
        let mut v = vec!["C03", "C02"];
        if self.malformed_count() > self.malformed_before {
            v.push("C13");
        }
        v
    }

    fn pre_step(&mut self) -> BTreeMap<Vec<u8>, Vec<u8>> {
        // what the harness's own queries (state comparison after the previous step) left in the recorders
        let _ = self.world.take_module_calls();
        self.world.0.borrow_mut().call_counts = self.model.call_counts.clone();
        let snap = self.app.storage().snapshot();
        self.malformed_before = self.malformed_count();
        self.not_admin_before = self.not_admin_count();
        let keys: Vec<Vec<u8>> = snap.keys().cloned().collect();
        self.world.0.borrow_mut().names.root_keys = keys.clone();
        self.model.names.root_keys = keys;
        // where the next plain instantiation will land (any code: the generators do not look at it, except
        // the adversarial one, for which this is only a guess)
        let code0 = self.model.names.codes.first().copied().unwrap_or(1);
        let n = self.model.s.contracts.len() as u64;
        let next = self.model.addr_fallback.as_ref().and_then(|f| f(code0, n, None));
        self.world.0.borrow_mut().names.next_addr = next.clone();
        self.model.names.next_addr = next;
        // the model's view of the slots must equal the world's (both out of band)
        snap
    }

    /// Runs the model for a top-level call and compares everything observable.
    #[allow(clippy::too_many_arguments)]
    fn settle(
        &mut self,
        what: &str,
        before: &BTreeMap<Vec<u8>, Vec<u8>>,
        real: RealOut<Vec<AppResponse>>,
        model_run: impl FnOnce(&mut Model) -> Result<Vec<MResp>, ()>,
        compare_data: bool,
        extra_props: &[&str],
    ) -> bool {
        let real_trace = self.world.take_trace();
        let real_calls = self.world.take_module_calls();
        let real_mod_events = self.world.take_module_events();
        self.model.begin_step(&real_trace, real_mod_events);
        let model_before = self.model.s.clone();
        let mres = model_run(&mut self.model);
        self.stats.steps += 1;
        for r in &real_trace {
            self.dig.write_str(&r.kind);
            self.dig.write_str(&r.contract);
            self.dig.write_u64(r.nid as u64);
            // everything a contract saw belongs to the observable behaviour of the run
            self.dig.write_u64(r.height);
            self.dig.write_u64(r.time_nanos);
            self.dig.write_str(&r.chain_id);
            self.dig.write_str(&r.sender);
            for (d, a) in &r.funds {
                self.dig.write_str(d);
                self.dig.write(&a.to_le_bytes());
            }
            for q in r.queries.iter().chain(r.reads.iter()).chain(r.post_reads.iter()) {
                self.dig.write_str(q);
            }
        }
        let flags = std::mem::take(&mut self.model.flags);
        for (p, c, d) in flags {
            let cls = c.split('.').nth(1).unwrap_or("flag").to_string();
            self.v(&[p.as_str()], &cls, format!("{}: {}", what, d));
        }
        if let RealOut::Ok(rs) = &real {
            for r in rs {
                for e in &r.events {
                    self.dig.write_str(&e.ty);
                    for at in &e.attributes {
                        self.dig.write_str(&at.key);
                        self.dig.write_str(&at.value);
                    }
                }
                self.dig.write(r.data.as_ref().map(|d| d.as_slice()).unwrap_or(b"\x00nodata"));
            }
        }
        let real_ok = match &real {
            RealOut::Ok(_) => true,
            RealOut::Err(e) => {
                self.dig.write_str("err");
                let _ = e;
                false
            }
            RealOut::Panic(m) => {
                if self.model.panicked && m.contains("scripted contract panic") {
                    // the injected crash inside contract code: it unwinds through the simulator; what follows
                    // checks that nothing of the call is left behind
                    self.dig.write_str("panic");
                    self.stats.probe("contract_crash_unwound");
                    false
                } else {
                    let mut props = vec!["C01", "C14", "C17"];
                    props.extend_from_slice(extra_props);
                    self.v(&props, "panic", format!("{}: the simulator panicked: {}", what, m));
                    return false;
                }
            }
        };
        // ---- trace (who ran, in which order, with what)
        self.compare_trace(what, &real_trace);
        // ---- module calls
        if real_calls != self.model.module_calls {
            let i = real_calls.iter().zip(self.model.module_calls.iter()).position(|(a, b)| a != b).unwrap_or(real_calls.len().min(self.model.module_calls.len()));
            let d = format!(
                "{}: module call #{} differs: real {:?} expected {:?} (real total {}, expected total {})",
                what,
                i,
                real_calls.get(i),
                self.model.module_calls.get(i),
                real_calls.len(),
                self.model.module_calls.len()
            );
            let bank_only = real_calls.get(i).map(|c| c.kind.starts_with("bank")).unwrap_or(false)
                || self.model.module_calls.get(i).map(|c| c.kind.starts_with("bank")).unwrap_or(false);
            if bank_only {
                self.v(&["C17", "C09", "C05"], "module_call_mismatch", d);
            } else {
                self.v(&["C17", "C10"], "module_call_mismatch", d);
            }
        }
        self.check_caching(what, &real_calls);
        // ---- outcome
        match (&real, &mres) {
            (RealOut::Ok(rs), Ok(ms)) => {
                if rs.len() != ms.len() {
                    self.v(&["C01"], "response_count", format!("{}: {} responses for {} messages", what, rs.len(), ms.len()));
                }
                for (i, (r, m)) in rs.iter().zip(ms.iter()).enumerate() {
                    let revs: Vec<Ev> = r.events.iter().map(ev_of).collect();
                    if revs != m.events {
                        let d = format!("{}: events of response {} differ: real [{}] expected [{}]", what, i, fmt_evs(&revs), fmt_evs(&m.events));
                        let mut props = vec!["C04", "C01"];
                        // C13: accepted strings surface unchanged — attributed when the events differ in content
                        // (some type / key / value string), not merely in order
                        let mut ra: Vec<String> = revs.iter().map(fmt_ev).collect();
                        let mut ma: Vec<String> = m.events.iter().map(fmt_ev).collect();
                        ra.sort();
                        ma.sort();
                        if ra != ma || revs.iter().chain(m.events.iter()).any(|e| e.attrs.iter().any(|(k, _)| bad_attr_key(k) && k != CONTRACT_ATTR)) {
                            props.push("C13");
                        }
                        self.v(&props, "events_mismatch", d);
                    }
                    if compare_data {
                        let rd = r.data.as_ref().map(|d| d.to_vec());
                        if rd != m.data {
                            self.v(
                                &["C04"],
                                "data_mismatch",
                                format!("{}: data of response {} differs: real {:?} expected {:?}", what, i, rd.map(|d| hex(&d)), m.data.as_ref().map(|d| hex(d))),
                            );
                        }
                    }
                }
            }
            (RealOut::Err(_), Err(())) => {}
            (RealOut::Ok(_), Err(())) => {
                let mut props = vec!["C01", "C02"];
                props.extend_from_slice(extra_props);
                if self.model.faults.keys().any(|k| k.starts_with("malformed_response")) {
                    props.push("C13");
                }
                if self.not_admin_count() > self.not_admin_before {
                    // the model refused an admin operation of a non-admin in this step
                    props.push("C12");
                }
                // what made the call fail in the model names the statement whose "fails" clause was ignored
                let rc = self.model.root_cause().unwrap_or("").to_string();
                let extra: &[&'static str] = match rc.as_str() {
                    "not_admin" => &["C12"],
                    "bank_overdraft" | "bank_empty_amount" => &["C09"],
                    "funds_transfer_failed" => &["C05", "C09"],
                    "duplicate_address" | "duplicate_salt" | "unknown_code_id" | "bad_salt_length" | "creator_not_canonical" => &["C11"],
                    k if k.starts_with("malformed_response") => &["C13"],
                    k if k.starts_with("failing_module:") || k.starts_with("module_reject:") => &["C17"],
                    _ => &[],
                };
                for e in extra {
                    if !props.contains(e) {
                        props.push(e);
                    }
                }
                self.v(&props, "accepted_but_must_fail", format!("{}: returned Ok but the model says the call must fail (cause in the model: {}; model faults so far: {:?})", what, rc, self.model.faults.keys().collect::<Vec<_>>()));
            }
            (RealOut::Err(e), Ok(_)) => {
                let mut props = vec!["C01", "C02"];
                props.extend_from_slice(extra_props);
                self.v(&props, "failed_but_must_succeed", format!("{}: returned Err ({}) but the model says it succeeds", what, e));
            }
            _ => {}
        }
        // ---- state
        if !real_ok {
            let after = self.app.storage().snapshot();
            if &after != before {
                let d = describe_diff(before, &after);
                // (C10: what a failed transaction left in the root store is what every query through App reads
                // from then on, although none of it was committed)
                let mut props = vec!["C01", "C02", "C05", "C09", "C10"];
                props.extend_from_slice(extra_props);
                if self.model.faults.keys().any(|k| k.starts_with("malformed_response")) {
                    props.push("C13");
                }
                // what made the call fail names the statement whose "fails without effect / aborts" clause this is
                let rc = self.model.root_cause().unwrap_or("").to_string();
                if rc == "not_admin" {
                    props.push("C12");
                }
                if rc.starts_with("failing_module:") || rc.starts_with("module_reject:") || rc.starts_with("bank_") || rc == "staking_invalid" || rc == "funds_transfer_failed" {
                    // the failure of a module (the bank and staking modules included) did not abort the transaction
                    props.push("C17");
                }
                if matches!(rc.as_str(), "duplicate_address" | "duplicate_salt" | "unknown_code_id" | "bad_salt_length") && !props.contains(&"C11") {
                    props.push("C11");
                }
                self.v(&props, "err_but_state_changed", format!("{}: returned Err but the root store changed: {}", what, d));
            }
            if mres.is_ok() {
                // keep real and model in step: the real system failed, so must the model state
                self.model.s = model_before;
            }
        } else if mres.is_ok() {
            self.compare_state_guarded(what, before, &model_before);
        }
        self.viol.is_empty()
    }

    /// The repo's CachingCustomHandler (when plugged in) saw exactly the custom messages and
    /// queries that passed the recorder in front of it, in order.
    fn check_caching(&mut self, what: &str, real_calls: &[ModCall]) {
        for c in real_calls {
            if c.kind == "custom" {
                self.custom_execs_seen.push(c.payload.clone());
            } else if c.kind == "custom.query" {
                self.custom_queries_seen.push(c.payload.clone());
            }
        }
        let mut bad = None;
        if let Some(st) = &self.caching {
            let execs: Vec<String> = st.execs().iter().map(|m| m.tag.clone()).collect();
            let queries: Vec<String> = st.queries().iter().map(|m| m.tag.clone()).collect();
            if execs != self.custom_execs_seen || queries != self.custom_queries_seen {
                bad = Some(format!("{}: CachingCustomHandler recorded execs {:?} / queries {:?}, the recorder in front of it saw {:?} / {:?}", what, execs, queries, self.custom_execs_seen, self.custom_queries_seen));
            }
        }
        if let Some(d) = bad {
            self.v(&["C17"], "caching_handler", d);
        }
    }

    fn compare_trace(&mut self, what: &str, real: &[TraceRec]) {
        let exp = self.model.trace.clone();
        let n = real.len().min(exp.len());
        for i in 0..n {
            let (r, m) = (&real[i], &exp[i]);
            if r == m {
                continue;
            }
            let at = format!("{}: invocation #{} (node {}, {} on {})", what, i, m.nid, m.kind, m.contract);
            if r.kind != m.kind || r.nid != m.nid || r.contract != m.contract {
                let is_reply = r.kind == "reply" || m.kind == "reply";
                let d = format!("{}: real ran {} node {} on {}", at, r.kind, r.nid, r.contract);
                if is_reply {
                    let props = self.reply_props();
                    self.v(&props, "reply_order_or_count", d);
                } else {
                    self.v(&["C03", "C02", "C01", "C05"], "execution_order", d);
                }
                return;
            }
            if r.code_tag != m.code_tag {
                // (a reply served by another code than the dispatching contract's current one did not reach
                // "the dispatching contract's reply entry point": C03 as well)
                // ... and the migration that completed inside the sub-message was not "visible to everything
                // that runs after it in the same transaction": C02 too)
                let props: &[&str] = if m.kind == "reply" { &["C12", "C11", "C03", "C02"] } else { &["C12", "C11"] };
                self.v(props, "served_by_wrong_code", format!("{}: served by code tag {} expected {}", at, r.code_tag, m.code_tag));
            }
            if r.sender != m.sender {
                self.v(&["C05", "C17"], "sender", format!("{}: sender {} expected {}", at, r.sender, m.sender));
            }
            if r.funds != m.funds {
                self.v(&["C05"], "funds", format!("{}: funds {:?} expected {:?}", at, r.funds, m.funds));
            }
            if r.height != m.height || r.time_nanos != m.time_nanos || r.chain_id != m.chain_id {
                self.v(&["C05"], "block", format!("{}: block {}/{}/{} expected {}/{}/{}", at, r.height, r.time_nanos, r.chain_id, m.height, m.time_nanos, m.chain_id));
            }
            if r.reply != m.reply {
                match (&r.reply, &m.reply) {
                    (Some(a), Some(b)) => {
                        if a.id != b.id || a.payload != b.payload {
                            self.v(&["C03"], "reply_id_payload", format!("{}: reply id/payload {}/{} expected {}/{}", at, a.id, hex(&a.payload), b.id, hex(&b.payload)));
                        }
                        if a.ok != b.ok {
                            self.v(&["C03", "C02"], "reply_result", format!("{}: reply result ok={} expected ok={}", at, a.ok, b.ok));
                        }
                        if a.events != b.events {
                            self.v(&["C03", "C04", "C13"], "reply_events", format!("{}: Reply carried events [{}] expected [{}]", at, fmt_evs(&a.events), fmt_evs(&b.events)));
                        }
                        if a.data != b.data {
                            self.v(&["C03", "C04"], "reply_data", format!("{}: Reply carried data {:?} expected {:?}", at, a.data.as_ref().map(|d| hex(d)), b.data.as_ref().map(|d| hex(d))));
                        }
                    }
                    _ => self.v(&["C03"], "reply_info", format!("{}: reply info presence differs", at)),
                }
            }
            if r.queries != m.queries {
                let j = r.queries.iter().zip(m.queries.iter()).position(|(a, b)| a != b).unwrap_or(0);
                let d = format!("{}: query #{} answered {:?} expected {:?}", at, j, r.queries.get(j), m.queries.get(j));
                self.v(&["C10", "C05", "C02", "C17"], "in_tx_query", d);
            }
            if r.reads != m.reads {
                let j = r.reads.iter().zip(m.reads.iter()).position(|(a, b)| a != b).unwrap_or(0);
                let d = format!("{}: own-storage read #{} returned {:?} expected {:?}", at, j, r.reads.get(j), m.reads.get(j));
                // in a batch of several messages a wrong read is also "each seeing its predecessors' effects" (C01)
                let multi = what.starts_with("execute_multi(") && !what.starts_with("execute_multi(1 ");
                if multi {
                    self.v(&["C08", "C02", "C06", "C12", "C01"], "in_call_read", d);
                } else {
                    self.v(&["C08", "C02", "C06", "C12"], "in_call_read", d);
                }
            }
            if r.post_reads != m.post_reads {
                let j = r.post_reads.iter().zip(m.post_reads.iter()).position(|(a, b)| a != b).unwrap_or(0);
                let d = format!("{}: read-back #{} after the call's own writes returned {:?} expected {:?}", at, j, r.post_reads.get(j), m.post_reads.get(j));
                self.v(&["C08", "C06", "C07"], "read_back", d);
            }
            if !self.viol.is_empty() {
                return;
            }
        }
        if real.len() != exp.len() {
            let (longer, who) = if real.len() > exp.len() { (&real[n], "real ran an extra") } else { (&exp[n], "real did not run the expected") };
            let d = format!("{}: {} invocation #{}: {} node {} on {} (real total {}, expected {})", what, who, n, longer.kind, longer.nid, longer.contract, real.len(), exp.len());
            if longer.kind == "reply" {
                let props = self.reply_props();
                self.v(&props, "reply_order_or_count", d);
            } else {
                self.v(&["C03", "C02", "C01", "C05", "C13"], "execution_order", d);
            }
        }
    }

    /// Known addresses: accounts, ghosts that hold money in the model, contracts, bound slots.
    fn known_addrs(&self) -> BTreeSet<String> {
        let mut s: BTreeSet<String> = self.model.names.accounts.iter().cloned().collect();
        for a in self.model.s.bank.keys() {
            s.insert(a.clone());
        }
        for a in self.model.s.contracts.keys() {
            s.insert(a.clone());
        }
        for a in self.model.names.slots.values() {
            s.insert(a.clone());
        }
        for a in &self.touched {
            s.insert(a.clone());
        }
        s
    }

    /// The state comparison asks the application many queries: a panic in there is the simulator's, not the
    /// checker's.
    fn compare_state_guarded(&mut self, what: &str, before: &BTreeMap<Vec<u8>, Vec<u8>>, model_before: &MState) {
        let r = catch_unwind(AssertUnwindSafe(|| self.compare_state(what, before, model_before)));
        if let Err(p) = r {
            self.v(
                &["C09", "C10", "C01", "C14"],
                "query_panic",
                format!("{}: a query through App (balances, supply, delegations, registry) panicked afterwards: {}", what, panic_message(&p)),
            );
        }
    }

    #[allow(deprecated)]
    fn compare_state(&mut self, what: &str, before: &BTreeMap<Vec<u8>, Vec<u8>>, model_before: &MState) {
        let addrs = self.known_addrs();
        let denoms = self.model.names.denoms.clone();
        // bank: three query kinds agree with each other and with the model
        for a in &addrs {
            if !self.model.valid_addr(a) || a == POOL {
                continue;
            }
            let all = match self.app.wrap().query_all_balances(a.clone()) {
                Ok(x) => x,
                Err(e) => {
                    self.v(&["C09", "C10"], "query_failed", format!("{}: AllBalances({}) failed: {}", what, a, e));
                    continue;
                }
            };
            let got_all: Vec<(String, u128)> = all.iter().map(|c| (c.denom.clone(), c.amount.u128())).collect();
            let exp_all = self.model.s.all_balances(a);
            if got_all != exp_all {
                self.v(&["C09", "C01", "C02", "C05"], "balance_mismatch", format!("{}: AllBalances({}) = {:?}, model {:?}", what, a, got_all, exp_all));
            }
            for d in &denoms {
                let got = self.app.wrap().query_balance(a.clone(), d.clone()).map(|c| c.amount.u128()).unwrap_or(u128::MAX);
                let exp = self.model.s.balance(a, d);
                if got != exp {
                    self.v(&["C09", "C01", "C02", "C05"], "balance_mismatch", format!("{}: Balance({},{}) = {}, model {}", what, a, d, got, exp));
                }
            }
        }
        for d in &denoms {
            let got = self.app.wrap().query_supply(d.clone()).map(|c| c.amount.u128()).unwrap_or(u128::MAX);
            let exp = self.model.s.supply(d);
            if got != exp {
                self.v(&["C09"], "supply_mismatch", format!("{}: Supply({}) = {}, model (sum of all balances) {}", what, d, got, exp));
            }
        }
        // staking: shown delegations of every known address equal the (integral) model ledger
        let validators = self.model.names.validators.clone();
        for a in &addrs {
            if !self.model.valid_addr(a) || a == POOL {
                continue;
            }
            for v in &validators {
                let got = match self.app.wrap().query_delegation(a.clone(), v.clone()) {
                    Ok(Some(d)) => d.amount.amount.u128(),
                    Ok(None) => 0,
                    Err(_) => u128::MAX,
                };
                let exp = self.model.s.stake.delegations.get(&(a.clone(), v.clone())).copied().unwrap_or(0);
                if got != exp {
                    self.v(&["C01", "C02", "C10", "C17"], "delegation_mismatch", format!("{}: delegation of {} to {} shows {}, model {}", what, a, v, got, exp));
                }
            }
        }
        // registry
        let contracts: Vec<(String, MContract)> = self.model.s.contracts.iter().map(|(a, c)| (a.clone(), c.clone())).collect();
        for (a, c) in &contracts {
            match self.app.contract_data(&Addr::unchecked(a.clone())) {
                Ok(cd) => {
                    if cd.code_id != c.code_id || cd.creator.as_str() != c.creator || cd.admin.as_ref().map(|x| x.to_string()) != c.admin || cd.label != c.label {
                        self.v(
                            &["C11", "C12", "C01", "C02"],
                            "registry_mismatch",
                            format!("{}: contract {} recorded as code {} creator {} admin {:?} label {:?}; model: code {} creator {} admin {:?} label {:?}", what, a, cd.code_id, cd.creator, cd.admin, cd.label, c.code_id, c.creator, c.admin, c.label),
                        );
                    }
                }
                Err(_) => self.v(&["C11", "C01", "C02"], "registry_mismatch", format!("{}: contract {} missing from the registry", what, a)),
            }
        }
        for a in addrs.iter() {
            if !self.model.s.contracts.contains_key(a) && self.app.contract_data(&Addr::unchecked(a.clone())).is_ok() {
                self.v(&["C02", "C01", "C11"], "registry_ghost", format!("{}: {} is in the registry but the model has no such contract (rolled-back instantiation?)", what, a));
            }
        }
        // contract storage: dump == model
        let empty = BTreeMap::new();
        for a in addrs.iter() {
            let dump: BTreeMap<Vec<u8>, Vec<u8>> = self.app.dump_wasm_raw(&Addr::unchecked(a.clone())).into_iter().collect();
            let exp = self.model.s.kv.get(a).unwrap_or(&empty);
            if &dump != exp {
                let d = describe_diff(exp, &dump);
                self.v(&["C08", "C02", "C01", "C12"], "contract_state_mismatch", format!("{}: storage of {} differs from the model (model -> real): {}", what, a, d));
            }
        }
        // every changed root key must be explained by a changed model entity
        let after = self.app.storage().snapshot();
        let mut bank_changed: BTreeSet<&String> = BTreeSet::new();
        for (a, m) in &self.model.s.bank {
            if model_before.bank.get(a) != Some(m) {
                bank_changed.insert(a);
            }
        }
        for a in model_before.bank.keys() {
            if !self.model.s.bank.contains_key(a) {
                bank_changed.insert(a);
            }
        }
        let bank_ns = [lp(b"bank"), lp(b"balances")].concat();
        let reg_ns = [lp(b"wasm"), lp(b"contracts")].concat();
        let staking_touched = what == "block update" || self.model.s.stake != model_before.stake || self.model.module_calls.iter().any(|c| c.kind == "staking" || c.kind == "distribution");
        let mut unexplained = vec![];
        for k in after.keys().chain(before.keys()) {
            if after.get(k) == before.get(k) {
                continue;
            }
            let mut ok = false;
            if let Some(rest) = k.strip_prefix(bank_ns.as_slice()) {
                let addr = String::from_utf8_lossy(rest).to_string();
                // a balance record rewritten to the same (empty) content is not a change of the ledger
                ok = bank_changed.contains(&addr) || (before.get(k).is_none() && self.model.s.all_balances(&addr).is_empty() && model_before.all_balances(&addr).is_empty() && touched_by_calls(&self.model.module_calls, &addr));
            } else if let Some(rest) = k.strip_prefix(reg_ns.as_slice()) {
                let addr = String::from_utf8_lossy(rest).to_string();
                ok = self.model.s.contracts.get(&addr) != model_before.contracts.get(&addr);
            } else if k.starts_with(&lp(b"wasm")) {
                for (a, kv) in &self.model.s.kv {
                    let ns = [lp(b"wasm"), lp(format!("contract_data/{}", a).as_bytes())].concat();
                    if let Some(rest) = k.strip_prefix(ns.as_slice()) {
                        ok = kv.get(rest) != model_before.kv.get(a).and_then(|m| m.get(rest));
                    }
                }
                for (a, kv) in &model_before.kv {
                    let ns = [lp(b"wasm"), lp(format!("contract_data/{}", a).as_bytes())].concat();
                    if let Some(rest) = k.strip_prefix(ns.as_slice()) {
                        if kv.get(rest) != self.model.s.kv.get(a).and_then(|m| m.get(rest)) {
                            ok = true;
                        }
                    }
                }
            } else if k.starts_with(&lp(b"staking")) || k.starts_with(&lp(b"distribution")) {
                ok = staking_touched;
            }
            if !ok {
                unexplained.push(hex(k));
            }
        }
        unexplained.sort();
        unexplained.dedup();
        if !unexplained.is_empty() {
            self.v(
                &["C08", "C01", "C09"],
                "unexplained_root_write",
                format!("{}: root keys changed that no modelled effect explains: {}", what, unexplained.iter().take(4).cloned().collect::<Vec<_>>().join(", ")),
            );
        }
        self.stats.states.push(crate::storage::digest_map(&after));
    }

    // ------------------------------------------------------------------ operations

    pub fn step(&mut self, op: &Op) -> bool {
        self.activate();
        // a panic that escapes the per-call guards was raised while the checker itself asked the application
        // something (or inside a builder): the simulator's panic is a violation, the checker's own is not
        let r = match catch_unwind(AssertUnwindSafe(|| self.step_inner(op))) {
            Ok(r) => r,
            Err(p) => {
                if crate::harness::last_panic_was_in_checker() {
                    std::panic::resume_unwind(p);
                }
                self.v(&["C01", "C09", "C10", "C14", "C17"], "panic", format!("the simulator panicked while the checker queried or drove it: {}", panic_message(&p)));
                false
            }
        };
        self.dig.write_u64(self.app.storage().digest());
        let bi = self.app.block_info();
        self.dig.write_u64(bi.height);
        self.dig.write_u64(bi.time.nanos());
        self.dig.write_str(&bi.chain_id);
        self.step_digs.push(self.dig.finish());
        r
    }

    fn step_inner(&mut self, op: &Op) -> bool {
        match op {
            Op::StoreCode { kind, creator, with_checksum } => self.op_store(*kind, *creator, None, *with_checksum),
            Op::StoreCodeWithId { kind, creator, id, with_checksum } => self.op_store(*kind, *creator, Some(*id), *with_checksum),
            Op::DuplicateCode { code } => {
                let id = self.model.names.code_id(*code);
                self.op_duplicate(id)
            }
            Op::DuplicateRaw { id } => self.op_duplicate(*id),
            Op::Exec { sender, msg, sweep } => {
                if *sweep {
                    self.sweep(*sender, msg);
                    if !self.viol.is_empty() {
                        return false;
                    }
                }
                self.exec_multi(*sender, std::slice::from_ref(msg), false)
            }
            Op::Multi { sender, msgs } => self.exec_multi(*sender, msgs, true),
            Op::WasmSudo { target, node, via_router } => self.op_wasm_sudo(target, node, *via_router),
            Op::Mint { to, coins } => {
                let cs = self.model.names.coins(coins, &|_| 0);
                self.op_mint(to, cs)
            }
            Op::SetDenomMeta { denom, tag } => self.op_set_denom_meta(*denom, *tag),
            Op::MintRaw { to, coins } => self.op_mint(to, coins.iter().map(|(d, m, sh)| (d.clone(), (*m as u128) << (*sh).min(127))).collect()),
            Op::HInstantiate { sender, code, slot, node, funds, label, admin, salt } => {
                let m = MsgSpec::Inst { code: *code, slot: *slot, node: Box::new(node.clone()), funds: funds.clone(), label: label.clone(), admin: admin.clone(), salt: salt.clone() };
                self.op_helper(*sender, &m)
            }
            Op::HExecute { sender, target, node, funds } => {
                let m = MsgSpec::Exec { target: target.clone(), node: Box::new(node.clone()), funds: funds.clone() };
                self.op_helper(*sender, &m)
            }
            Op::HMigrate { sender, target, code, node } => {
                let m = MsgSpec::Migrate { target: target.clone(), code: *code, node: Box::new(node.clone()) };
                self.op_helper(*sender, &m)
            }
            Op::HSend { sender, to, coins } => {
                let m = MsgSpec::Send { to: to.clone(), coins: coins.clone() };
                self.op_helper(*sender, &m)
            }
            Op::Block { set, dh, dt, abs_h, dn, chain, zero_time } => self.op_block(*set, *dh, *dt, *abs_h, *dn, *chain, *zero_time),
            Op::External { target, k, v } => self.op_external(target, k, v.as_deref()),
            Op::Queries => self.op_queries(),
        }
    }

    fn tree_signature(&mut self, msgs: &[CMsg]) {
        for m in msgs {
            self.tree_sigs.write_str(match m {
                CMsg::Exec { .. } => "x",
                CMsg::Inst { .. } => "i",
                CMsg::Migrate { .. } => "m",
                CMsg::Send { .. } => "s",
                _ => "o",
            });
            if let CMsg::Exec { node, .. } | CMsg::Inst { node, .. } | CMsg::Migrate { node, .. } = m {
                let mut f = self.tree_sigs;
                node.visit(&mut |n| {
                    f.write_u64(n.subs.len() as u64);
                    f.write_u64(n.fail as u64);
                    for s in &n.subs {
                        f.write_u64(s.reply_on as u64 % 4);
                        f.write_str(s.msg.kind());
                    }
                });
                self.tree_sigs = f;
            }
        }
    }

    fn exec_multi(&mut self, sender: u32, msgs: &[MsgSpec], multi: bool) -> bool {
        let before = self.pre_step();
        let sender_addr = self.sender(sender);
        let cmsgs: Vec<CMsg> = msgs.iter().map(|m| self.resolve_top(&sender_addr, m)).collect();
        self.tree_signature(&cmsgs);
        let cos: Vec<CosmosMsg<SimMsg>> = cmsgs.iter().filter_map(|m| to_cosmos::<SimMsg>(m)).collect();
        let app = &mut self.app;
        let sa = Addr::unchecked(sender_addr.clone());
        let real = if multi {
            guarded(|| app.execute_multi(sa, cos))
        } else {
            guarded(|| app.execute(sa, cos.into_iter().next().unwrap()).map(|r| vec![r]))
        };
        let what = if multi { format!("execute_multi({} msgs)", msgs.len()) } else { format!("execute({})", msgs[0].kind()) };
        if multi && msgs.len() > 1 {
            self.stats.probe("multi_len_ge_2");
        }
        // a top-level instantiation that fails although it must succeed (or the reverse) is C11's business too
        // ("every stored or duplicated code can be instantiated", "rejected as a duplicate, leaving state unchanged")
        let mut extra: Vec<&str> = vec![];
        if cmsgs.iter().any(|m| matches!(m, CMsg::Inst { .. })) {
            extra.push("C11");
        }
        // likewise an admin operation (anywhere in the tree) that is accepted although it must fail, or fails
        // leaving something behind, is C12's "otherwise fail leaving code id, admin and storage unchanged"
        fn has_admin_op(m: &MsgSpec) -> bool {
            match m {
                MsgSpec::UpdateAdmin { .. } | MsgSpec::ClearAdmin { .. } | MsgSpec::Migrate { .. } => true,
                MsgSpec::Exec { node, .. } | MsgSpec::Inst { node, .. } => node_has_admin_op(node),
                _ => false,
            }
        }
        fn node_has_admin_op(n: &Node) -> bool {
            n.subs.iter().any(|s| has_admin_op(&s.msg) || s.reply.as_ref().map(|r| node_has_admin_op(r)).unwrap_or(false))
        }
        if msgs.iter().any(has_admin_op) {
            extra.push("C12");
        }
        let ok = self.settle(&what, &before, real, |m| m.top_level(&sender_addr, &cmsgs), true, &extra);
        ok
    }

    /// Single-fault sweep: the same tree once per potential fault site (every body and every
    /// reply handler), each variant from the same restored snapshot of chain, world and model.
    fn sweep(&mut self, sender: u32, msg: &MsgSpec) {
        let n = match msg.node() {
            Some(n) => n.count(),
            None => return,
        };
        if n > 16 {
            return;
        }
        let root_snap = self.app.storage().snapshot();
        let world_snap = self.world.snap();
        let model_s = self.model.s.clone();
        let model_oob = self.model.oob_snap();
        let faults_fired = self.world.0.borrow().faults_fired.clone();
        for site in 0..n {
            let mut variant = msg.clone();
            let mut idx = 0;
            let mut already = false;
            variant.node_mut().unwrap().visit_mut(&mut |nd| {
                if idx == site {
                    already = nd.fail;
                    nd.fail = true;
                }
                idx += 1;
            });
            if already {
                continue;
            }
            self.stats.fault("sweep_fault_site");
            let ok = self.exec_multi(sender, std::slice::from_ref(&variant), false);
            if !ok {
                for v in self.viol.iter_mut() {
                    v.detail = format!("[single-fault sweep, fault at node index {}] {}", site, v.detail);
                }
                return;
            }
            // restore chain, world and model to the snapshot
            self.app.storage_mut().restore(&root_snap);
            self.world.restore(&world_snap);
            self.world.0.borrow_mut().faults_fired = faults_fired.clone();
            self.model.s = model_s.clone();
            self.model.oob_restore(&model_oob);
        }
        // module-call fault sweep: the same tree once per module call it makes (bank transfers incl.
        // attached funds and staking's internal sends, staking, distribution, custom, ibc, gov,
        // stargate, any, module queries), that call rejected by the shim
        let counts_before = self.world.0.borrow().call_counts.clone();
        if !self.exec_multi(sender, std::slice::from_ref(msg), false) {
            for v in self.viol.iter_mut() {
                v.detail = format!("[sweep, fault-free probe run] {}", v.detail);
            }
            return;
        }
        let calls: Vec<String> = self.model.module_calls.iter().map(|c| c.kind.clone()).collect();
        let restore = |sim: &mut Sim| {
            sim.app.storage_mut().restore(&root_snap);
            sim.world.restore(&world_snap);
            sim.world.0.borrow_mut().faults_fired = faults_fired.clone();
            sim.model.s = model_s.clone();
            sim.model.oob_restore(&model_oob);
        };
        restore(self);
        let mut seen: BTreeMap<String, u32> = BTreeMap::new();
        for kind in calls.iter().take(14) {
            let j = {
                let c = seen.entry(kind.clone()).or_insert(0);
                let j = *c;
                *c += 1;
                j
            };
            if kind == "bank.sudo" || kind == "bank.query" {
                continue;
            }
            let key = (kind.clone(), counts_before.get(kind).copied().unwrap_or(0) + j);
            let fresh_w = self.world.0.borrow_mut().fault_plan.insert(key.clone());
            let fresh_m = self.model.fault_plan.insert(key.clone());
            self.stats.fault("sweep_module_call_site");
            let ok = self.exec_multi(sender, std::slice::from_ref(msg), false);
            if fresh_w {
                self.world.0.borrow_mut().fault_plan.remove(&key);
            }
            if fresh_m {
                self.model.fault_plan.remove(&key);
            }
            if !ok {
                for v in self.viol.iter_mut() {
                    v.detail = format!("[module-call fault sweep, {} call #{} of the tree rejected] {}", key.0, j, v.detail);
                }
                return;
            }
            restore(self);
        }
    }

    fn op_wasm_sudo(&mut self, target: &Target, node: &Node, via_router: bool) -> bool {
        let before = self.pre_step();
        let addr = self.model.names.target(target, "");
        let app = &mut self.app;
        let a = Addr::unchecked(addr.clone());
        let real = if via_router {
            guarded(|| {
                let msg = WasmSudo { contract_addr: a, message: node_binary(node) };
                app.sudo(SudoMsg::Wasm(msg)).map(|r| vec![r])
            })
        } else {
            guarded(|| app.wasm_sudo(a, node).map(|r| vec![r]))
        };
        let what = if via_router { "sudo(SudoMsg::Wasm)" } else { "wasm_sudo" };
        self.settle(what, &before, real, |m| m.top_level_sudo(&addr, node).map(|r| vec![r]), true, &[])
    }

    fn op_mint(&mut self, to: &Target, cs: Vec<(String, u128)>) -> bool {
        let before = self.pre_step();
        let addr = self.model.names.target(to, "");
        // keep every balance far below 2^120 (the quantifier excludes overflow)
        let app = &mut self.app;
        let real = guarded(|| app.sudo(SudoMsg::Bank(BankSudo::Mint { to_address: addr.clone(), amount: to_coins(&cs) })).map(|r| vec![r]));
        self.settle(
            "sudo(BankSudo::Mint)",
            &before,
            real,
            |m| {
                let s0 = m.s.clone();
                match m.bank_mint(&addr, &cs) {
                    Ok(r) => Ok(vec![r]),
                    Err(()) => {
                        m.s = s0;
                        Err(())
                    }
                }
            },
            true,
            &["C09"],
        )
    }

    fn op_set_denom_meta(&mut self, denom: u32, tag: u8) -> bool {
        let before = self.pre_step();
        let d = self.model.names.denom(denom);
        let name = format!("meta-{}-{}", d, tag);
        let meta = cosmwasm_std::DenomMetadata {
            description: format!("description of {}", d),
            denom_units: vec![],
            base: d.clone(),
            display: d.clone(),
            name: name.clone(),
            symbol: d.to_uppercase(),
            uri: String::new(),
            uri_hash: String::new(),
        };
        let app = &mut self.app;
        let dd = d.clone();
        let real: RealOut<Vec<AppResponse>> = guarded(|| {
            app.init_modules(|router, _api, storage| router.bank.inner.set_denom_metadata(storage, dd, meta))?;
            Ok(vec![])
        });
        self.stats.steps += 1;
        match real {
            RealOut::Ok(_) => {
                self.model.denom_meta.insert(d.clone(), name);
            }
            RealOut::Err(e) => self.v(&["C09"], "denom_metadata", format!("set_denom_metadata({}) failed: {}", d, e)),
            RealOut::Panic(p) => self.v(&["C09"], "panic", format!("set_denom_metadata({}) panicked: {}", d, p)),
        }
        // exactly one root entry may have changed
        let after = self.app.storage().snapshot();
        let changed: Vec<&Vec<u8>> = after.iter().filter(|(k, v)| before.get(*k) != Some(*v)).map(|(k, _)| k).chain(before.keys().filter(|k| !after.contains_key(*k))).collect();
        if changed.len() > 1 {
            self.v(&["C08", "C09"], "unexplained_root_write", format!("set_denom_metadata({}) changed {} root entries", d, changed.len()));
        }
        self.viol.is_empty()
    }

    fn op_helper(&mut self, sender: u32, m: &MsgSpec) -> bool {
        let before = self.pre_step();
        let sender_addr = self.sender(sender);
        let cm = self.resolve_top(&sender_addr, m);
        let sa = Addr::unchecked(sender_addr.clone());
        let app = &mut self.app;
        let mut returned_addr: Option<String> = None;
        let real: RealOut<Vec<AppResponse>> = match &cm {
            CMsg::Inst { code_id, node, funds, label, admin, salt, .. } => {
                let r = match salt {
                    None => guarded(|| app.instantiate_contract(*code_id, sa, node, &to_coins(funds), label.clone(), admin.clone())),
                    Some(s) => guarded(|| app.instantiate2_contract(*code_id, sa, node, &to_coins(funds), label.clone(), admin.clone(), s.clone())),
                };
                match r {
                    RealOut::Ok(a) => {
                        returned_addr = Some(a.to_string());
                        RealOut::Ok(vec![])
                    }
                    RealOut::Err(e) => RealOut::Err(e),
                    RealOut::Panic(p) => RealOut::Panic(p),
                }
            }
            CMsg::Exec { contract, node, funds } => {
                let c = Addr::unchecked(contract.clone());
                guarded(|| app.execute_contract(sa, c, node, &to_coins(funds)).map(|r| vec![r]))
            }
            CMsg::Migrate { contract, code_id, node } => {
                let c = Addr::unchecked(contract.clone());
                guarded(|| app.migrate_contract(sa, c, node, *code_id).map(|r| vec![r]))
            }
            CMsg::Send { to, coins } => {
                let t = Addr::unchecked(to.clone());
                guarded(|| app.send_tokens(sa, t, &to_coins(coins)).map(|r| vec![r]))
            }
            _ => return true,
        };
        let is_inst = matches!(cm, CMsg::Inst { .. });
        let nid = m.node().map(|n| n.nid);
        let what = format!("helper {}", m.kind());
        let cm2 = cm.clone();
        let ok = self.settle(
            &what,
            &before,
            real,
            |md| {
                let r = md.top_level(&sender_addr, std::slice::from_ref(&cm2))?;
                Ok(if is_inst { vec![] } else { r })
            },
            false,
            &["C11"],
        );
        if ok {
            if let (Some(ra), Some(nid)) = (&returned_addr, nid) {
                let exp = self.model.learned_addr.get(&nid).cloned();
                if exp.as_ref() != Some(ra) {
                    self.v(&["C11", "C04"], "helper_address", format!("{}: helper returned address {} but the instantiate entry point ran at {:?}", what, ra, exp));
                }
            }
        }
        self.viol.is_empty()
    }

    fn op_store(&mut self, kind: CodeKind, creator: u32, id: Option<u64>, with_checksum: Option<u8>) -> bool {
        let tag = self.model.names.codes.len() as u32;
        let ek = effective_kind(kind, tag);
        let code = make_code(kind, tag, &self.world, with_checksum);
        let creator_addr = self.sender(creator);
        let ca = Addr::unchecked(creator_addr.clone());
        let max_id = self.model.codes.keys().last().copied().unwrap_or(0);
        // the sentinel id u64::MAX - 1 means "exactly the id the next automatic assignment would give"
        let id = id.map(|i| if i == u64::MAX - 1 { max_id.saturating_add(1) } else { i });
        let app = &mut self.app;
        self.stats.steps += 1;
        if id.is_none() && max_id == u64::MAX {
            // no id is left: the documented behaviour of store_code is to panic; nothing may change
            let before = app.storage().snapshot();
            let real: RealOut<u64> = guarded(|| Ok(app.store_code_with_creator(ca, code)));
            if let RealOut::Ok(got) = real {
                self.v(&["C11"], "code_id", format!("store_code returned id {} although u64::MAX is in use", got));
            }
            if self.app.storage().snapshot() != before {
                self.v(&["C11"], "code_id", "store_code without a free id changed the chain state".to_string());
            }
            let _ = self.world.take_module_calls();
            self.world.0.borrow_mut().call_counts = self.model.call_counts.clone();
            return self.viol.is_empty();
        }
        let (real, expected): (RealOut<u64>, Result<u64, ()>) = match id {
            None => (guarded(|| Ok(app.store_code_with_creator(ca, code))), Ok(max_id + 1)),
            Some(i) => (
                guarded(|| app.store_code_with_id(ca, i, code)),
                if i == 0 || self.model.codes.contains_key(&i) { Err(()) } else { Ok(i) },
            ),
        };
        match (real, expected) {
            (RealOut::Ok(got), Ok(exp)) => {
                if got != exp {
                    self.v(&["C11"], "code_id", format!("store_code returned id {} expected {}", got, exp));
                    return false;
                }
                self.world.0.borrow_mut().plan_suspended = true;
                let info = self.app.wrap().query_wasm_code_info(got);
                self.world.0.borrow_mut().plan_suspended = false;
                let checksum = match info {
                    Ok(i) => {
                        if i.creator.as_str() != creator_addr {
                            self.v(&["C11"], "code_info", format!("CodeInfo({}) creator {} expected {}", got, i.creator, creator_addr));
                        }
                        i.checksum.to_hex()
                    }
                    Err(e) => {
                        self.v(&["C11"], "code_info", format!("CodeInfo({}) of a freshly stored code failed: {}", got, e));
                        String::new()
                    }
                };
                if let Some(b) = with_checksum {
                    if checksum != checksum_of(b).to_hex() {
                        self.v(&["C11", "C20"], "code_checksum", format!("code {} stored with its own checksum reports another one", got));
                    }
                } else if self.model.codes.values().any(|c| c.checksum == checksum) {
                    self.v(&["C11"], "code_checksum", format!("generated checksum of code {} equals that of another code", got));
                }
                self.model.codes.insert(got, MCode { tag, kind: ek, creator: creator_addr, checksum });
                self.model.names.codes.push(got);
                self.world.0.borrow_mut().names.codes.push(got);
                self.dig.write_u64(got);
                let cs = self.model.codes.get(&got).map(|c| c.checksum.clone()).unwrap_or_default();
                self.dig.write_str(&cs);
            }
            (RealOut::Err(_), Err(())) => {
                self.stats.fault("store_code_rejected");
            }
            (RealOut::Ok(got), Err(())) => self.v(&["C11"], "code_id", format!("store_code_with_id({:?}) returned {} but zero / duplicate ids must be rejected", id, got)),
            (RealOut::Err(e), Ok(exp)) => self.v(&["C11"], "code_id", format!("store_code failed ({}) expected id {}", e, exp)),
            (RealOut::Panic(p), _) => self.v(&["C11"], "panic", format!("store_code panicked: {}", p)),
        }
        // the harness's own CodeInfo query went through the wasm recorder: not part of any step
        let _ = self.world.take_module_calls();
        self.world.0.borrow_mut().call_counts = self.model.call_counts.clone();
        self.viol.is_empty()
    }

    fn op_duplicate(&mut self, id: u64) -> bool {
        let max_id = self.model.codes.keys().last().copied().unwrap_or(0);
        let src = self.model.codes.get(&id).cloned();
        let app = &mut self.app;
        self.stats.steps += 1;
        let real = guarded(|| app.duplicate_code(id));
        if max_id == u64::MAX {
            // no id is left: duplicating must be refused
            if let RealOut::Ok(got) = real {
                self.v(&["C11"], "code_id", format!("duplicate_code({}) returned id {} although u64::MAX is in use", id, got));
            }
            let _ = self.world.take_module_calls();
            self.world.0.borrow_mut().call_counts = self.model.call_counts.clone();
            return self.viol.is_empty();
        }
        match (real, src) {
            (RealOut::Ok(got), Some(src)) => {
                if got != max_id + 1 {
                    self.v(&["C11"], "code_id", format!("duplicate_code({}) returned id {} expected {}", id, got, max_id + 1));
                    return false;
                }
                self.world.0.borrow_mut().plan_suspended = true;
                let dup_info = self.app.wrap().query_wasm_code_info(got);
                self.world.0.borrow_mut().plan_suspended = false;
                match dup_info {
                    Ok(i) => {
                        if i.checksum.to_hex() != src.checksum || i.creator.as_str() != src.creator {
                            self.v(&["C11"], "code_info", format!("duplicate {} of code {} has another checksum or creator", got, id));
                        }
                    }
                    Err(e) => self.v(&["C11"], "code_info", format!("CodeInfo({}) of a duplicated code failed: {}", got, e)),
                }
                self.model.codes.insert(got, src);
                self.model.names.codes.push(got);
                self.world.0.borrow_mut().names.codes.push(got);
                self.stats.probe("duplicated_code");
            }
            (RealOut::Err(_), None) => self.stats.fault("duplicate_code_rejected"),
            (RealOut::Ok(got), None) => self.v(&["C11"], "code_id", format!("duplicate_code({}) of a code that was never stored returned {}", id, got)),
            (RealOut::Err(e), Some(_)) => self.v(&["C11"], "code_id", format!("duplicate_code({}) of a stored code failed: {}", id, e)),
            (RealOut::Panic(p), _) => self.v(&["C11"], "panic", format!("duplicate_code panicked: {}", p)),
        }
        let _ = self.world.take_module_calls();
        self.world.0.borrow_mut().call_counts = self.model.call_counts.clone();
        self.viol.is_empty()
    }

    #[allow(clippy::too_many_arguments)]
    fn op_block(&mut self, set: bool, dh: u64, dt: u64, abs_h: Option<u64>, dn: u32, chain: Option<u8>, zero_time: bool) -> bool {
        let before = self.pre_step();
        let cur = self.app.block_info();
        let new_height = abs_h.unwrap_or_else(|| cur.height.saturating_add(dh));
        let new_time = if zero_time && self.model.names.validators.is_empty() {
            cosmwasm_std::Timestamp::from_nanos(0)
        } else {
            cur.time.plus_seconds(dt).plus_nanos(dn as u64)
        };
        let new_chain = match chain {
            Some(c) => format!("chain-{}", c),
            None => cur.chain_id.clone(),
        };
        let new = BlockInfo { height: new_height, time: new_time, chain_id: new_chain.clone() };
        let app = &mut self.app;
        let nb = new.clone();
        let real = if set {
            guarded(|| {
                app.set_block(nb);
                Ok(vec![])
            })
        } else {
            guarded(|| {
                app.update_block(|b| {
                    b.height = new_height;
                    b.time = new_time;
                    b.chain_id = new_chain.clone();
                });
                Ok(vec![])
            })
        };
        self.stats.sim_seconds += dt;
        self.stats.fault(if set { "clock_set_block" } else { "clock_update_block" });
        let ok = self.settle(
            "block update",
            &before,
            real,
            |m| {
                m.chain_id = new.chain_id.clone();
                m.advance_block(new.height, new.time.nanos());
                Ok(vec![])
            },
            false,
            &["C14"],
        );
        let b = self.app.block_info();
        if b != new {
            self.v(&["C05"], "block", format!("block_info() is {:?} after the update, expected {:?}", b, new));
        }
        ok && self.viol.is_empty()
    }

    fn op_external(&mut self, target: &Target, k: &[u8], v: Option<&[u8]>) -> bool {
        let before = self.pre_step();
        let addr = self.model.names.target(target, "");
        if !self.model.valid_addr(&addr) {
            return true;
        }
        let model_before = self.model.s.clone();
        {
            let mut st = self.app.contract_storage_mut(&Addr::unchecked(addr.clone()));
            match v {
                Some(v) if !v.is_empty() => st.set(k, v),
                _ => st.remove(k),
            }
        }
        let kv = self.model.s.kv.entry(addr.clone()).or_default();
        match v {
            Some(v) if !v.is_empty() => {
                kv.insert(k.to_vec(), v.to_vec());
            }
            _ => {
                kv.remove(k);
            }
        }
        self.touched.insert(addr);
        self.stats.steps += 1;
        self.stats.probe("external_write");
        self.model.module_calls.clear();
        self.compare_state_guarded("contract_storage_mut write", &before, &model_before);
        self.viol.is_empty()
    }

    /// App-level query battery: purity (root digest and write counter unchanged), repeatability,
    /// agreement with the committed model state; accessor / raw query / dump agreement.
    fn op_queries(&mut self) -> bool {
        let names = self.model.names.clone();
        let mut qs: Vec<QueryOp> = vec![];
        let na = names.accounts.len() as u32;
        for i in 0..na {
            qs.push(QueryOp::AllBalances { who: Target::Account(i) });
            for d in 0..names.denoms.len() as u32 + 1 {
                qs.push(QueryOp::Balance { who: Target::Account(i), denom: d });
            }
        }
        for d in 0..names.denoms.len() as u32 + 1 {
            qs.push(QueryOp::Supply { denom: d });
        }
        let slots: Vec<u32> = names.slots.keys().cloned().collect();
        for s in slots.iter().chain([9999u32].iter()) {
            let c = Target::Contract(*s);
            qs.push(QueryOp::AllBalances { who: c.clone() });
            qs.push(QueryOp::ContractInfo { contract: c.clone() });
            qs.push(QueryOp::Smart { contract: c.clone(), keys: vec![b"a".to_vec(), vec![], b"zz".to_vec()], scan: true, chain: vec![] });
            let addr = names.target(&c, "");
            let keys: Vec<Vec<u8>> = self.model.s.kv.get(&addr).map(|m| m.keys().cloned().collect()).unwrap_or_default();
            for k in keys.iter().take(6) {
                qs.push(QueryOp::Raw { contract: c.clone(), key: KeySpec::Lit(k.clone()) });
            }
            qs.push(QueryOp::Raw { contract: c.clone(), key: KeySpec::Lit(b"absent-key".to_vec()) });
            qs.push(QueryOp::Raw { contract: c.clone(), key: KeySpec::Lit(vec![]) });
        }
        // nested smart queries (depth 2 .. 6) through the existing contracts
        if !slots.is_empty() {
            for depth in [1usize, 3, 5] {
                let chain: Vec<Target> = (0..depth).map(|i| Target::Contract(slots[(i + 1) % slots.len()])).collect();
                qs.push(QueryOp::Smart { contract: Target::Contract(slots[0]), keys: vec![b"init".to_vec()], scan: false, chain });
            }
        }
        qs.push(QueryOp::ContractInfo { contract: Target::Invalid });
        qs.push(QueryOp::Balance { who: Target::Invalid, denom: 0 });
        for c in 0..names.codes.len() as u32 + 1 {
            qs.push(QueryOp::CodeInfo { code: c });
        }
        qs.push(QueryOp::Custom { tag: "q1".into() });
        qs.push(QueryOp::Ibc { tag: "chan".into() });
        qs.push(QueryOp::Stargate { tag: "/path".into() });
        qs.push(QueryOp::Grpc { tag: "/grpc".into() });
        qs.push(QueryOp::BondedDenom);
        qs.push(QueryOp::AllValidators);
        for v in 0..names.validators.len() as u32 + 1 {
            qs.push(QueryOp::Validator { val: v });
            for i in 0..na {
                qs.push(QueryOp::Delegation { who: Target::Account(i), val: v });
            }
        }
        for i in 0..na {
            qs.push(QueryOp::AllDelegations { who: Target::Account(i) });
        }
        qs.push(QueryOp::AllDenomMeta);
        for d in 0..names.denoms.len() as u32 + 1 {
            qs.push(QueryOp::DenomMeta { denom: d });
        }
        self.model.module_calls.clear();
        // (what the state comparison after the previous step asked is not part of this battery)
        let _ = self.world.take_module_calls();
        self.world.0.borrow_mut().call_counts = self.model.call_counts.clone();
        let digest0 = self.app.storage().digest();
        let writes0 = self.app.storage().writes();
        for q in &qs {
            let a1 = match catch_unwind(AssertUnwindSafe(|| answer_query_app(&self.app, &names, q))) {
                Ok(a) => a,
                Err(p) => {
                    self.v(&["C10", "C17"], "query_panic", format!("query {:?} panicked: {}", q, panic_message(&p)));
                    return false;
                }
            };
            let a2 = catch_unwind(AssertUnwindSafe(|| answer_query_app(&self.app, &names, q))).unwrap_or_else(|_| "PANIC".into());
            let exp = self.model.answer_pub(q);
            let exp2 = self.model.answer_pub(q);
            self.dig.write_str(&a1);
            self.stats.steps += 2;
            // (an injected module rejection of exactly one of the two calls is the only legitimate difference)
            if a1 != a2 && exp == exp2 {
                self.v(&["C10"], "query_not_repeatable", format!("query {:?} answered {:?} and then {:?}", q, a1, a2));
            }
            if a1 != exp {
                let mut props = vec!["C10", "C17"];
                match q {
                    QueryOp::Balance { .. } | QueryOp::AllBalances { .. } | QueryOp::Supply { .. } => props.push("C09"),
                    QueryOp::Raw { .. } | QueryOp::Smart { .. } => props.push("C08"),
                    QueryOp::ContractInfo { .. } | QueryOp::CodeInfo { .. } => {
                        props.push("C11");
                        props.push("C12");
                    }
                    _ => {}
                }
                self.v(&props, "query_answer", format!("query {:?} answered {:?}, committed model state says {:?}", q, a1, exp));
            }
            if !self.viol.is_empty() {
                return false;
            }
        }
        if self.app.storage().digest() != digest0 || self.app.storage().writes() != writes0 {
            self.v(&["C10"], "query_wrote", format!("{} App-level queries changed the root store ({} writes)", qs.len() * 2, self.app.storage().writes() - writes0));
        }
        let real_calls = self.world.take_module_calls();
        if real_calls != self.model.module_calls {
            let i = real_calls.iter().zip(self.model.module_calls.iter()).position(|(a, b)| a != b).unwrap_or(real_calls.len().min(self.model.module_calls.len()));
            self.v(
                &["C17", "C10"],
                "module_call_mismatch",
                format!("queries: module calls {} expected {}; first difference at #{}: real {:?} expected {:?}", real_calls.len(), self.model.module_calls.len(), i, real_calls.get(i), self.model.module_calls.get(i)),
            );
        }
        self.check_caching("App-level queries", &real_calls);
        let _ = self.world.take_trace();
        // accessor agreement: contract_storage(addr) get/range == model
        let empty = BTreeMap::new();
        let mut errs: Vec<String> = vec![];
        for a in self.known_addrs() {
            if !self.model.valid_addr(&a) {
                continue;
            }
            let kv = self.model.s.kv.get(&a).unwrap_or(&empty);
            let st = self.app.contract_storage(&Addr::unchecked(a.clone()));
            for desc in [false, true] {
                let order = if desc { cosmwasm_std::Order::Descending } else { cosmwasm_std::Order::Ascending };
                let got: Vec<_> = st.range(None, None, order).collect();
                let exp = crate::storage::model_range(kv, None, None, desc);
                if got != exp {
                    errs.push(format!("contract_storage({}).range(desc={}) differs from the model", a, desc));
                }
            }
            for (k, v) in kv.iter().take(4) {
                if st.get(k).as_ref() != Some(v) {
                    errs.push(format!("contract_storage({}).get({}) differs from the model", a, hex(k)));
                }
            }
            // the same words cut into three namespace levels name ANOTHER window, which nothing ever wrote to
            // (and looking into it must not disturb anything: the next steps run on the right window)
            drop(st);
            let other = self.app.prefixed_multilevel_storage(&[b"wasm", b"contract_data", a.as_bytes()]);
            if other.range(None, None, cosmwasm_std::Order::Ascending).next().is_some() {
                errs.push(format!("the three-level view [wasm, contract_data, {}] is not empty", a));
            }
        }
        for e in errs {
            self.v(&["C08"], "accessor_mismatch", e);
        }
        self.stats.probe("query_battery");
        self.viol.is_empty()
    }

    pub fn finish(mut self) -> RunResult {
        let w = self.world.0.borrow();
        for (k, v) in &w.faults_fired {
            *self.stats.faults.entry(k.clone()).or_insert(0) += v;
        }
        drop(w);
        for (k, v) in &self.model.faults {
            *self.stats.faults.entry(k.clone()).or_insert(0) += v;
        }
        for (k, v) in &self.model.probes {
            *self.stats.probes.entry(k.clone()).or_insert(0) += v;
        }
        let mut sig = self.tree_sigs;
        for (k, v) in &self.stats.faults {
            sig.write_str(k);
            sig.write_u64((*v).min(2));
        }
        self.stats.signature = sig.finish();
        self.stats.nontrivial = self.stats.faults.keys().any(|k| {
            k.ends_with("_body_err") || k.starts_with("module_reject") || k.starts_with("bank_") || k.starts_with("malformed") || k == "failure_caught" || k == "not_admin" || k == "duplicate_salt"
        });
        self.dig.write_u64(self.app.storage().digest());
        self.dig.write_u64(self.viol.len() as u64);
        self.stats.digest = self.dig.finish();
        set_current_world(None);
        RunResult { violations: self.viol, stats: self.stats }
    }
}

fn touched_by_calls(calls: &[ModCall], addr: &str) -> bool {
    calls.iter().any(|c| c.kind.starts_with("bank") && (c.sender == addr || c.payload.contains(addr)))
}

pub fn describe_diff(a: &BTreeMap<Vec<u8>, Vec<u8>>, b: &BTreeMap<Vec<u8>, Vec<u8>>) -> String {
    let mut out = vec![];
    for (k, v) in b {
        match a.get(k) {
            None => out.push(format!("+{}={}", show_key(k), show_key(v))),
            Some(x) if x != v => out.push(format!("~{}: {} -> {}", show_key(k), show_key(x), show_key(v))),
            _ => {}
        }
    }
    for k in a.keys() {
        if !b.contains_key(k) {
            out.push(format!("-{}", show_key(k)));
        }
    }
    out.truncate(4);
    out.join("; ")
}

fn show_key(k: &[u8]) -> String {
    let s: String = k.iter().map(|b| if b.is_ascii_graphic() { *b as char } else { '.' }).collect();
    if s.len() > 120 {
        format!("{}..", &s[..120])
    } else {
        s
    }
}

pub fn answer_query_app(app: &SimApp, names: &Names, q: &QueryOp) -> String {
    let w = app.wrap();
    crate::contract::answer_query_pub(names, "", &w, q)
}

pub fn execute_case(case: &Case) -> RunResult {
    let mut sim = Sim::new(case);
    for op in &case.ops {
        if !sim.step(op) {
            break;
        }
    }
    sim.finish()
}
