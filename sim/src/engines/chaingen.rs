//! Seeded generation (swarm style) and minimisation of chainsim cases, and the Engine glue.

use super::chainsim::*;
use crate::harness::*;
use crate::ops::*;
use crate::prng::Rng;
use serde_json::json;

pub struct ChainSim;

#[derive(Clone)]
struct Profile {
    // top-level op weights
    w_exec: u32,
    w_multi: u32,
    w_sudo: u32,
    w_mint: u32,
    w_helper: u32,
    w_store: u32,
    w_block: u32,
    w_external: u32,
    w_queries: u32,
    // sub-message kind weights
    s_exec: u32,
    s_inst: u32,
    s_migrate: u32,
    s_admin: u32,
    s_bank: u32,
    s_module: u32,
    s_staking: u32,
    // per-node rates (per 100)
    fail: u64,
    malformed: u64,
    funds: u64,
    queries: u64,
    writes: u64,
    adversarial_keys: u64,
    attrs: u64,
    reply: u64,
    sweep: u64,
    max_depth: u32,
    max_nodes: u32,
    ops: usize,
    module_faults: u64,
    empty_kind: u64,
    /// per cent of instantiations that are salted / of stored codes that carry their own checksum
    salted: u64,
    own_checksum: u64,
    /// one block op in `zero_time` sets the block time to 0 (only on chains without validators)
    zero_time: u64,
    /// one node in `crash` panics instead of returning
    crash: u64,
}

fn profile(prop: &str, tier: Tier, rng: &mut Rng) -> Profile {
    let thorough = tier == Tier::Thorough;
    let mut p = Profile {
        w_exec: 10,
        w_multi: 3,
        w_sudo: 2,
        w_mint: 1,
        w_helper: 3,
        w_store: 1,
        w_block: 1,
        w_external: 1,
        w_queries: 1,
        s_exec: 10,
        s_inst: 2,
        s_migrate: 1,
        s_admin: 1,
        s_bank: 4,
        s_module: 2,
        s_staking: 1,
        fail: 10,
        malformed: 2,
        funds: 30,
        queries: 30,
        writes: 60,
        adversarial_keys: 10,
        attrs: 40,
        reply: 60,
        sweep: 15,
        max_depth: if thorough { 6 } else { 4 },
        max_nodes: if thorough { 30 } else { 12 },
        ops: if thorough { 60 } else { 20 },
        module_faults: 30,
        empty_kind: 25,
        salted: 35,
        own_checksum: 20,
        zero_time: 40,
        crash: 150,
    };
    match prop {
        "C01" => {
            p.w_multi = 8;
            p.w_sudo = 5;
            p.fail = 18;
            p.sweep = 35;
            p.s_staking = 3;
            p.s_inst = 4;
        }
        "C02" => {
            p.s_migrate = 4;
            p.fail = 22;
            p.sweep = 30;
            p.reply = 80;
            p.s_inst = 4;
            p.s_bank = 6;
        }
        "C03" => {
            p.s_migrate = 4;
            p.reply = 90;
            p.fail = 18;
            p.sweep = 25;
            p.empty_kind = 40;
        }
        "C04" => {
            p.attrs = 85;
            p.reply = 80;
            p.fail = 10;
            p.s_migrate = 4;
            p.s_inst = 4;
            p.w_sudo = 4;
        }
        "C05" => {
            p.funds = 70;
            p.w_block = 5;
            p.zero_time = 8;
            p.queries = 60;
            p.s_migrate = 4;
            p.s_inst = 4;
            p.w_sudo = 4;
        }
        "C08" => {
            p.writes = 95;
            p.adversarial_keys = 45;
            p.w_external = 6;
            p.w_queries = 4;
            p.queries = 50;
        }
        "C09" => {
            p.w_mint = 6;
            p.w_helper = 6;
            p.s_bank = 20;
            p.funds = 60;
            p.w_queries = 3;
            p.s_staking = 3;
        }
        "C10" => {
            p.queries = 90;
            p.w_queries = 6;
            p.fail = 15;
            p.funds = 50;
            p.s_inst = 4;
            p.s_admin = 3;
        }
        "C11" => {
            p.w_store = 8;
            p.salted = 65;
            p.own_checksum = 50;
            p.s_inst = 12;
            p.w_helper = 8;
            p.fail = 15;
            p.s_migrate = 4;
        }
        "C12" => {
            p.s_admin = 10;
            p.s_migrate = 10;
            p.w_helper = 6;
            p.w_store = 3;
            p.writes = 80;
        }
        "C13" => {
            p.malformed = 14;
            p.attrs = 85;
            p.reply = 75;
            p.w_sudo = 4;
            p.s_migrate = 4;
            p.s_inst = 4;
        }
        "C19" => {
            // everything the environment could leak into a run: block updates of all kinds
            p.w_block = 4;
            p.w_queries = 5;
            p.zero_time = 5;
            p.queries = 50;
            p.crash = 40;
        }
        "C17" => {
            p.s_module = 16;
            p.s_staking = 5;
            p.module_faults = 80;
            p.empty_kind = 45;
            p.queries = 60;
            p.s_migrate = 3;
        }
        _ => {}
    }
    // swarm: randomly switch features off or up per run
    let knobs: [&mut u32; 9] = [&mut p.w_multi, &mut p.w_sudo, &mut p.w_mint, &mut p.w_helper, &mut p.w_block, &mut p.w_external, &mut p.s_module, &mut p.s_staking, &mut p.s_admin];
    for k in knobs {
        if rng.chance(1, 6) {
            *k = 0;
        } else if rng.chance(1, 6) {
            *k *= 3;
        }
    }
    if rng.chance(1, 5) {
        p.fail = 0;
    } else if rng.chance(1, 5) {
        p.fail *= 2;
    }
    if rng.chance(1, 4) {
        p.max_depth = 2;
    }
    p
}

struct Gen<'a> {
    rng: &'a mut Rng,
    p: Profile,
    nid: u32,
    n_accounts: u32,
    n_denoms: u32,
    n_validators: u32,
    n_codes: u32,
    n_slots: u32,
    /// contracts created by the setup prefix (they exist in every state)
    n_live: u32,
    /// bias senders and admins towards account 0 (successful admin operations)
    admin_bias: bool,
    /// the account admin operations are biased to (0, or a plain-named one)
    admin_acct: u32,
    /// non-bonded denominations that may still receive one huge mint
    huge_left: u32,
    many_done: bool,
    /// slots of contracts created as their own admin
    self_admin: Vec<u32>,
    nodes_left: u32,
    uniq: u32,
    /// keys written recently (reads, removes and queries are biased towards them: read-after-write,
    /// overwrite-then-remove within one transaction)
    recent: Vec<KeySpec>,
}

const GOOD_KEYS: [&str; 10] = ["k", "key", "action", "a_b", "x", "\u{e9}", " x ", "xy", "ab ", "\u{200b}"];
const BAD_KEYS: [&str; 8] = ["", " ", "\t\n", "_", "_x", " _x", "\u{a0}", "_contract_address"];
const GOOD_TYPES: [&str; 14] = ["ab", "xy", "\u{e9}", " ab ", "transfer", "wasm", "a b", "wasm-ab", "wasm-", "execute", "_ab", "__", "  _padded ", "message"];
const BAD_TYPES: [&str; 6] = ["", "a", " a ", "\u{a0}a", "  ", "\t"];
const IDS: [u64; 6] = [0, 1, 2, 7, u64::MAX, 1];
const KEY_POOL: [&[u8]; 10] = [b"", b"\x00", b"a", b"a\x00", b"ab", b"b", b"\xff", b"\xff\xff", b"k1", b"contract_data/"];

impl<'a> Gen<'a> {
    fn next_nid(&mut self) -> u32 {
        self.nid += 1;
        self.nid
    }

    fn uniq(&mut self) -> u32 {
        self.uniq += 1;
        self.uniq
    }

    fn pc(&mut self, pct: u64) -> bool {
        self.rng.below(100) < pct
    }

    fn target_contract(&mut self) -> Target {
        let r = self.rng.below(100);
        if r < 65 && self.n_live > 0 {
            Target::Contract(self.rng.below(self.n_live as u64) as u32)
        } else if r < 80 && self.n_slots > 0 {
            Target::Contract(self.rng.below(self.n_slots as u64) as u32)
        } else if r < 91 {
            Target::SelfAddr
        } else if r < 94 {
            Target::Account(self.rng.below(self.n_accounts as u64) as u32)
        } else if r < 96 {
            Target::Ghost(self.rng.below(27) as u32)
        } else if r < 98 {
            Target::Next
        } else {
            Target::Invalid
        }
    }

    fn target_any(&mut self) -> Target {
        let r = self.rng.below(100);
        if self.admin_bias && r < 30 {
            Target::Account(self.admin_acct)
        } else if r < 40 {
            Target::Account(self.rng.below(self.n_accounts as u64) as u32)
        } else if r < 75 && self.n_slots > 0 {
            Target::Contract(self.rng.below(self.n_slots as u64) as u32)
        } else if r < 85 {
            Target::SelfAddr
        } else if r < 94 {
            Target::Ghost(self.rng.below(27) as u32)
        } else if r < 97 {
            Target::Next
        } else {
            Target::Invalid
        }
    }

    fn amt(&mut self) -> Amt {
        match self.rng.below(12) {
            0 => Amt::Zero,
            1 => Amt::All,
            2 => Amt::AllPlus(1),
            3 => Amt::Half,
            4 => Amt::AllPlus(self.rng.range(1, 1000)),
            _ => Amt::Abs(self.rng.range(1, 50)),
        }
    }

    fn coins(&mut self, allow_empty: bool) -> Vec<CoinSpec> {
        let n = if allow_empty { self.rng.below(4) } else { 1 + self.rng.below(3) };
        let mut v = vec![];
        for _ in 0..n {
            let denom = if self.rng.chance(1, 25) { self.n_denoms + 3 } else { self.rng.below(self.n_denoms as u64) as u32 };
            v.push(CoinSpec { denom, amt: self.amt() });
        }
        // repeated denominations and zero coins mixed in
        if !v.is_empty() && self.rng.chance(1, 6) {
            let c = v[0].clone();
            v.push(CoinSpec { denom: c.denom, amt: Amt::Abs(self.rng.range(1, 9)) });
        }
        v
    }

    fn funds(&mut self) -> Vec<CoinSpec> {
        if self.pc(self.p.funds) {
            self.coins(false)
        } else {
            vec![]
        }
    }

    fn recent_or_key(&mut self) -> KeySpec {
        if !self.recent.is_empty() && self.rng.chance(1, 2) {
            self.rng.pick(&self.recent).clone()
        } else {
            self.key()
        }
    }

    fn key(&mut self) -> KeySpec {
        if self.pc(self.p.adversarial_keys) {
            KeySpec::RootSuffix { idx: self.rng.below(4096) as u32, cut: if self.rng.chance(1, 4) { 0 } else { self.rng.below(64) as u32 } }
        } else if self.rng.chance(1, 150) {
            KeySpec::Long { byte: *self.rng.pick(&[b'k', 0u8, 0xff]), len: *self.rng.pick(&[65_535u32, 65_536, 65_537, 70_000]) }
        } else if self.rng.chance(1, 8) {
            let n = self.rng.usize(4);
            KeySpec::Lit(self.rng.bytes(n))
        } else {
            KeySpec::Lit(self.rng.pick(&KEY_POOL).to_vec())
        }
    }

    fn query(&mut self) -> QueryOp {
        match self.rng.below(20) {
            0 | 1 | 2 => QueryOp::Balance { who: Target::SelfAddr, denom: self.rng.below(self.n_denoms as u64) as u32 },
            3 => QueryOp::Balance { who: self.target_any(), denom: self.rng.below(self.n_denoms as u64 + 1) as u32 },
            4 => QueryOp::AllBalances { who: self.target_any() },
            5 if self.rng.chance(1, 4) => {
                if self.rng.chance(1, 3) {
                    QueryOp::AllDenomMeta
                } else {
                    QueryOp::DenomMeta { denom: self.rng.below(self.n_denoms as u64 + 1) as u32 }
                }
            }
            5 => QueryOp::Supply { denom: self.rng.below(self.n_denoms as u64) as u32 },
            6 | 7 => QueryOp::Raw { contract: self.target_contract(), key: self.recent_or_key() },
            8 | 9 => {
                let mut keys: Vec<Vec<u8>> = (0..self.rng.below(3)).map(|_| self.rng.pick(&KEY_POOL).to_vec()).collect();
                if let Some(KeySpec::Lit(k)) = self.recent.last().cloned() {
                    keys.push(k);
                }
                let scan = self.rng.chance(1, 3);
                let chain: Vec<Target> = match self.rng.below(6) {
                    0 | 1 => (0..1 + self.rng.below(2)).map(|_| self.target_contract()).collect(),
                    2 => (0..3 + self.rng.below(3)).map(|_| self.target_contract()).collect(),
                    _ => vec![],
                };
                QueryOp::Smart { contract: self.target_contract(), keys, scan, chain }
            }
            10 | 11 => QueryOp::ContractInfo { contract: self.target_contract() },
            12 => QueryOp::CodeInfo { code: self.rng.below(self.n_codes as u64 + 1) as u32 },
            13 | 14 => QueryOp::Custom { tag: format!("cq{}", self.rng.below(3)) },
            15 => QueryOp::Ibc { tag: "chan".into() },
            16 => {
                if self.rng.chance(1, 2) {
                    QueryOp::Stargate { tag: "/p".into() }
                } else {
                    QueryOp::Grpc { tag: "/g".into() }
                }
            }
            17 => QueryOp::Delegation { who: self.target_any(), val: self.rng.below(self.n_validators as u64 + 1) as u32 },
            18 => QueryOp::AllDelegations { who: self.target_any() },
            _ => match self.rng.below(3) {
                0 => QueryOp::BondedDenom,
                1 => QueryOp::AllValidators,
                _ => QueryOp::Validator { val: self.rng.below(self.n_validators as u64 + 1) as u32 },
            },
        }
    }

    fn attr(&mut self, bad: bool) -> (String, String) {
        let k = if bad { self.rng.pick(&BAD_KEYS).to_string() } else { self.rng.pick(&GOOD_KEYS).to_string() };
        let v = match self.rng.below(4) {
            0 => String::new(),
            1 => " v ".to_string(),
            _ => format!("v{}", self.uniq()),
        };
        (k, v)
    }

    fn node(&mut self, depth: u32) -> Node {
        let nid = self.next_nid();
        self.nodes_left = self.nodes_left.saturating_sub(1);
        let mut n = Node { nid, ..Default::default() };
        if self.pc(self.p.queries) {
            for _ in 0..1 + self.rng.below(3) {
                let q = self.query();
                n.queries.push(q);
            }
            // the same query twice within one entry point must reach the module twice
            if self.rng.chance(1, 5) {
                let q = n.queries[0].clone();
                n.queries.push(q);
            }
        }
        if self.pc(self.p.writes / 2) {
            for _ in 0..1 + self.rng.below(2) {
                let r = if self.rng.chance(1, 2) {
                    ReadOp::Get(self.recent_or_key())
                } else {
                    let start = if self.rng.chance(1, 2) { None } else { Some(self.rng.pick(&KEY_POOL).to_vec()) };
                    let end = if self.rng.chance(1, 2) { None } else { Some(self.rng.pick(&KEY_POOL).to_vec()) };
                    let desc = self.rng.chance(1, 2);
                    match self.rng.below(4) {
                        0 => ReadOp::Keys { start, end, desc },
                        1 => ReadOp::Values { start, end, desc },
                        _ => ReadOp::Range { start, end, desc },
                    }
                };
                n.reads.push(r);
            }
        }
        if self.pc(self.p.writes) {
            for _ in 0..1 + self.rng.below(3) {
                if self.rng.chance(1, 5) {
                    let k = self.recent_or_key();
                    n.writes.push(WriteOp::Remove { k });
                } else if self.rng.chance(1, 40) {
                    // many entries at once: 1 .. 300, around the powers of two and hundreds
                    let cnt = *self.rng.pick(&[1u16, 15, 16, 17, 31, 33, 64, 99, 100, 101, 128, 129, 255, 257, 300]);
                    let tag = self.rng.below(2) as u8;
                    if self.rng.chance(1, 4) {
                        n.writes.push(WriteOp::BulkRemove { tag, n: cnt });
                    } else {
                        // sometimes the same keys twice in one call, with other values the second time
                        if self.rng.chance(1, 4) {
                            n.writes.push(WriteOp::Bulk { tag, n: cnt, salt: (nid % 200) as u8 });
                        }
                        n.writes.push(WriteOp::Bulk { tag, n: cnt, salt: (nid % 200) as u8 + 1 });
                    }
                } else if self.rng.chance(1, 60) {
                    let k = self.recent_or_key();
                    n.writes.push(WriteOp::Hammer { k, n: *self.rng.pick(&[33u16, 64, 65, 70, 129, 150]) });
                } else if self.rng.chance(1, 8) {
                    let k = self.recent_or_key();
                    n.writes.push(WriteOp::Restore { k, rewrite_only: self.rng.chance(1, 3) });
                } else {
                    let k = self.recent_or_key();
                    // mostly unique values (every read is attributable to one write); sometimes one of three
                    // recurring ones, so that a key goes A, B, A within one transaction
                    let v = if self.rng.chance(1, 6) { self.rng.pick(&[b"A".as_slice(), b"B", b"C"]).to_vec() } else { format!("w{}-{}", nid, self.uniq()).into_bytes() };
                    self.recent.push(k.clone());
                    if self.recent.len() > 8 {
                        self.recent.remove(0);
                    }
                    n.writes.push(WriteOp::Set { k, v });
                }
            }
        }
        if !n.writes.is_empty() && self.rng.chance(1, 3) {
            for _ in 0..1 + self.rng.below(2) {
                let r = if self.rng.chance(1, 2) {
                    ReadOp::Get(self.recent_or_key())
                } else {
                    ReadOp::Range { start: None, end: if self.rng.chance(1, 2) { None } else { Some(self.rng.pick(&KEY_POOL).to_vec()) }, desc: self.rng.chance(1, 2) }
                };
                n.post_reads.push(r);
            }
        }
        n.fail = self.pc(self.p.fail);
        // a crash instead of an error, rarely (and more often where runs are compared across instances)
        n.panic = self.rng.chance(1, self.p.crash);
        if self.pc(self.p.attrs) {
            for _ in 0..self.rng.below(3) {
                let bad = self.pc(self.p.malformed);
                let a = self.attr(bad);
                n.attrs.push(a);
            }
            for _ in 0..self.rng.below(3) {
                let bad_ty = self.pc(self.p.malformed);
                let ty = if bad_ty { self.rng.pick(&BAD_TYPES).to_string() } else { self.rng.pick(&GOOD_TYPES).to_string() };
                let mut attrs = vec![];
                for _ in 0..self.rng.below(3) {
                    let bad = self.pc(self.p.malformed);
                    attrs.push(self.attr(bad));
                }
                n.events.push(EvSpec { ty, attrs });
            }
        }
        n.data = match self.rng.below(5) {
            0 | 1 => None,
            2 => Some(vec![]),
            3 if self.rng.chance(1, 10) => {
                // data that looks like an execute-response envelope itself (field 1, length-delimited)
                Some(match self.rng.below(4) {
                    0 => vec![0x0a, 0x03, b'a', b'b', b'c'],
                    1 => vec![0x0a, 0x00],
                    2 => vec![0x0a, 0x05, 0x0a, 0x03, b'x', b'y', b'z'],
                    _ => vec![0x0a, 0x04, b'a', b'b', b'c'],
                })
            }
            3 if self.rng.chance(1, 6) => {
                // lengths around the one-byte / two-byte boundaries of length-prefixed encodings
                let len = *self.rng.pick(&[1usize, 126, 127, 128, 129, 255, 256, 300, 16383, 16384, 20000]);
                let mut d = format!("d{}-", nid).into_bytes();
                while d.len() < len {
                    d.push(b'a' + (d.len() % 23) as u8);
                }
                d.truncate(len);
                Some(d)
            }
            _ => Some(format!("d{}", nid).into_bytes()),
        };
        if depth < self.p.max_depth && self.nodes_left > 0 {
            let nsubs = match self.rng.below(10) {
                0..=3 => 0,
                4..=6 => 1,
                7 | 8 => 2,
                _ => 3,
            };
            for _ in 0..nsubs {
                if self.nodes_left == 0 {
                    break;
                }
                let s = self.sub(depth);
                n.subs.push(s);
            }
        }
        n
    }

    fn msg(&mut self, depth: u32) -> MsgSpec {
        let w = [self.p.s_exec, self.p.s_inst, self.p.s_migrate, self.p.s_admin, self.p.s_bank, self.p.s_module, self.p.s_staking];
        match self.rng.weighted(&w) {
            0 => {
                let mut node = self.node(depth + 1);
                node.empty_msg = self.rng.chance(1, 60);
                MsgSpec::Exec { target: self.target_contract(), node: Box::new(node), funds: self.funds() }
            }
            1 => self.inst(depth),
            2 => {
                // self-migration (a contract that is its own admin) is a rare but legal shape
                let target = if depth > 0 && self.rng.chance(2, 5) { Target::SelfAddr } else { self.target_contract() };
                let mut node = self.node(depth + 1);
                node.empty_msg = self.rng.chance(1, 25);
                MsgSpec::Migrate { target, code: self.rng.below(self.n_codes as u64 + 1) as u32, node: Box::new(node) }
            }
            3 => {
                if self.rng.chance(1, 3) {
                    MsgSpec::ClearAdmin { target: self.target_contract() }
                } else {
                    MsgSpec::UpdateAdmin { target: self.target_contract(), admin: self.target_any() }
                }
            }
            4 => {
                if self.rng.chance(1, 4) {
                    MsgSpec::Burn { coins: self.coins(true) }
                } else {
                    MsgSpec::Send { to: self.target_any(), coins: self.coins(true) }
                }
            }
            5 => match self.rng.below(5) {
                0 => MsgSpec::Custom { tag: format!("c{}", self.uniq()) },
                1 => MsgSpec::Ibc { tag: format!("chan{}", self.uniq()) },
                2 => MsgSpec::Gov { n: self.rng.below(100) },
                3 => MsgSpec::Stargate { tag: format!("/sg{}", self.uniq()), value: self.rng.bytes(2) },
                _ => MsgSpec::Any { tag: format!("/any{}", self.uniq()), value: self.rng.bytes(2) },
            },
            _ => {
                let val = self.rng.below(self.n_validators as u64 + 1) as u32;
                let denom = if self.rng.chance(1, 10) { 1 } else { 0 };
                let coin = CoinSpec { denom, amt: self.amt() };
                match self.rng.below(8) {
                    0..=3 => MsgSpec::Delegate { val, coin },
                    4 | 5 => MsgSpec::Undelegate { val, coin },
                    6 => MsgSpec::Redelegate { src: val, dst: self.rng.below(self.n_validators as u64 + 1) as u32, coin },
                    _ => {
                        match self.rng.below(5) {
                            0 | 1 => MsgSpec::SetWithdraw { to: self.target_any() },
                            2 => MsgSpec::FundPool { coins: self.coins(false) },
                            _ => MsgSpec::Withdraw { val },
                        }
                    }
                }
            }
        }
    }

    fn inst(&mut self, depth: u32) -> MsgSpec {
        let slot = self.n_slots;
        self.n_slots += 1;
        let mut node = self.node(depth + 1);
        node.bind = Some(slot);
        let salt = if !self.pc(self.p.salted) {
            None
        } else {
            match self.rng.below(10) {
                0..=6 => Some(vec![self.rng.below(2) as u8]),
                7 | 8 => Some(self.rng.bytes(3)),
                _ => match self.rng.below(3) {
                    0 => Some(vec![]),
                    1 => Some(vec![7; 65]),
                    _ => Some(vec![9; 64]),
                },
            }
        };
        let label = match self.rng.below(14) {
            0 => String::new(),
            1 => format!(" lead{}", slot),
            2 => format!("trail{} ", slot),
            3 => format!("\t{}\n", slot),
            4 if self.rng.chance(1, 3) => format!("{:l<1$}", format!("long{}", slot), *self.rng.pick(&[127usize, 128, 129, 300])),
            _ => format!("label{}", slot),
        };
        let admin = match self.rng.below(4) {
            0 => None,
            1 => Some(Target::SelfAddr),
            _ => Some(self.target_any()),
        };
        MsgSpec::Inst { code: self.rng.below(self.n_codes as u64 + 3) as u32, slot, node: Box::new(node), funds: self.funds(), label, admin, salt }
    }

    fn sub(&mut self, depth: u32) -> Sub {
        let msg = self.msg(depth);
        let reply_on = self.rng.below(4) as u8;
        let id = *self.rng.pick(&IDS);
        let payload = match self.rng.below(4) {
            0 => vec![],
            1 => vec![0],
            _ => format!("p{}", self.uniq()).into_bytes(),
        };
        let want_reply = if reply_on == 0 { self.rng.chance(1, 10) } else { self.pc(self.p.reply) };
        let reply = if want_reply && self.nodes_left > 0 {
            let mut r = self.node(depth + 1);
            // some reply handlers hand the sub-message's data on unchanged
            r.echo_reply_data = self.rng.chance(1, 6);
            Some(Box::new(r))
        } else {
            None
        };
        Sub { msg, id, reply_on, payload, reply }
    }

    fn top_msg(&mut self) -> MsgSpec {
        if !self.self_admin.is_empty() && self.rng.chance(1, 12) {
            // a contract that is its own admin migrates itself through a sub-message it wants a reply for
            // (directly, or by calling itself): the reply belongs to the new code
            self.nodes_left = self.p.max_nodes;
            let slot = *self.rng.pick(&self.self_admin);
            let code = self.rng.below(self.n_codes as u64) as u32;
            let migrate = MsgSpec::Migrate { target: Target::SelfAddr, code, node: Box::new(self.node(2)) };
            let inner = if self.rng.chance(1, 2) {
                migrate
            } else {
                let nid = self.next_nid();
                let carrier = Node { nid, subs: vec![Sub { msg: migrate, id: 2, reply_on: 0, payload: vec![], reply: None }], ..Default::default() };
                MsgSpec::Exec { target: Target::SelfAddr, node: Box::new(carrier), funds: vec![] }
            };
            let mut root = self.node(3);
            let reply = Some(Box::new(self.node(3)));
            root.subs.insert(0, Sub { msg: inner, id: *self.rng.pick(&IDS), reply_on: if self.rng.chance(1, 2) { 1 } else { 3 }, payload: vec![], reply });
            return MsgSpec::Exec { target: Target::Contract(slot), node: Box::new(root), funds: vec![] };
        }
        // top-level messages are mostly contract calls
        if self.rng.chance(3, 4) && self.n_slots > 0 {
            self.nodes_left = self.p.max_nodes;
            MsgSpec::Exec { target: self.target_contract(), node: Box::new(self.node(0)), funds: self.funds() }
        } else {
            self.nodes_left = self.p.max_nodes;
            self.msg(0)
        }
    }

    fn op(&mut self) -> Op {
        let w = [self.p.w_exec, self.p.w_multi, self.p.w_sudo, self.p.w_mint, self.p.w_helper, self.p.w_store, self.p.w_block, self.p.w_external, self.p.w_queries];
        let sender = if self.admin_bias && self.rng.chance(1, 2) { self.admin_acct } else { self.rng.below(self.n_accounts as u64) as u32 };
        match self.rng.weighted(&w) {
            0 => {
                let msg = self.top_msg();
                let sweep = self.pc(self.p.sweep);
                Op::Exec { sender, msg, sweep }
            }
            1 if self.rng.chance(1, if self.p.s_inst >= 4 { 12 } else { 40 }) => {
                // coins sent to the address the next contract will get, then the instantiation (in one batch,
                // or, half of the time, as two transactions)
                self.nodes_left = self.p.max_nodes;
                let pay = MsgSpec::Send { to: Target::Next, coins: vec![CoinSpec { denom: 0, amt: Amt::Abs(1 + self.rng.below(5)) }] };
                let inst = self.inst(0);
                Op::Multi { sender, msgs: vec![pay, inst] }
            }
            1 if self.p.s_bank >= 4 && self.rng.chance(1, 25) => {
                // a long batch of small sends in which one recipient comes up again and again: one transaction
                // with well over a hundred writes, many of them to the same keys
                let again = Target::Ghost(self.rng.below(24) as u32);
                let n = 34 + self.rng.below(12) as u32;
                let rep = 5 + self.rng.below(8) as u32;
                let msgs = (0..n)
                    .map(|i| MsgSpec::Send { to: if i < rep || self.rng.chance(1, 5) { again.clone() } else { Target::Ghost(i) }, coins: vec![CoinSpec { denom: 0, amt: Amt::Abs(1 + (i % 3) as u64) }] })
                    .collect();
                Op::Multi { sender, msgs }
            }
            1 if self.p.s_bank >= 20 && self.rng.chance(1, 4) => {
                // many never-seen recipients at once: the bank comes to know a lot of accounts
                let first = self.rng.below(24) as u32;
                let n = 6 + self.rng.below(6) as u32;
                let msgs = (0..n).map(|i| MsgSpec::Send { to: Target::Ghost(first + i), coins: vec![CoinSpec { denom: 0, amt: Amt::Abs(1 + i as u64) }] }).collect();
                Op::Multi { sender, msgs }
            }
            1 => {
                let n = 1 + self.rng.below(4);
                let saved = self.p.max_nodes;
                self.p.max_nodes = (saved / 2).max(3);
                let msgs = (0..n).map(|_| self.top_msg()).collect();
                self.p.max_nodes = saved;
                Op::Multi { sender, msgs }
            }
            2 => {
                self.nodes_left = self.p.max_nodes;
                Op::WasmSudo { target: self.target_contract(), node: self.node(0), via_router: self.rng.chance(1, 2) }
            }
            3 if self.huge_left > 0 && self.n_denoms >= 2 && self.rng.chance(1, 3) => {
                // 2^127 of one or of two non-bonded denominations at once (each denomination at most once per
                // run, so that no balance or supply leaves the 128-bit range)
                let first = self.n_denoms - self.huge_left;
                let n = if self.huge_left >= 2 && self.rng.chance(1, 2) { 2 } else { 1 };
                let coins = (0..n).map(|i| (format!("denom{}", first + i), 1u64, 127u8)).collect();
                self.huge_left -= n;
                Op::MintRaw { to: Target::Account(self.rng.below(self.n_accounts as u64) as u32), coins }
            }
            3 if self.rng.chance(1, 8) => Op::SetDenomMeta { denom: self.rng.below(self.n_denoms as u64) as u32, tag: self.rng.below(3) as u8 },
            3 if !self.many_done && self.rng.chance(1, 12) => {
                // one account comes to hold more than a hundred denominations
                self.many_done = true;
                let n = *self.rng.pick(&[99u32, 100, 101, 130]);
                let coins = (0..n).map(|i| (format!("zd{:03}", i), 1 + i as u64, 0u8)).collect();
                Op::MintRaw { to: Target::Account(self.rng.below(self.n_accounts as u64) as u32), coins }
            }
            3 => Op::Mint { to: self.target_any(), coins: self.coins(true).into_iter().map(|c| CoinSpec { denom: c.denom, amt: match c.amt { Amt::Abs(n) => Amt::Abs(n * 10), Amt::Zero => Amt::Zero, _ => Amt::Abs(25) } }).collect() },
            4 => {
                self.nodes_left = self.p.max_nodes;
                match self.rng.below(6) {
                    0 | 1 => {
                        if let MsgSpec::Inst { code, slot, node, funds, label, admin, salt } = self.inst(0) {
                            Op::HInstantiate { sender, code, slot, node: *node, funds, label, admin, salt }
                        } else {
                            Op::Queries
                        }
                    }
                    2 | 3 => Op::HExecute { sender, target: self.target_contract(), node: self.node(0), funds: self.funds() },
                    4 => Op::HMigrate { sender, target: self.target_contract(), code: self.rng.below(self.n_codes as u64 + 1) as u32, node: self.node(0) },
                    _ => Op::HSend { sender, to: self.target_any(), coins: self.coins(true) },
                }
            }
            5 => self.store_op(),
            6 => {
                let dt = match self.rng.below(6) {
                    0 => 0,
                    1 => 59,
                    2 => 60,
                    3 => 61,
                    4 => self.rng.range(1, 100_000),
                    _ => 5,
                };
                let abs_h = if self.rng.chance(1, 6) { Some(*self.rng.pick(&[0u64, 1, u64::MAX, 7])) } else { None };
                let dn = if self.rng.chance(1, 4) { self.rng.range(1, 999_999_999) as u32 } else { 0 };
                let (dt, dh) = if dn > 0 && self.rng.chance(1, 2) { (0, 0) } else { (dt, self.rng.below(3)) };
                let chain = if self.rng.chance(1, 8) { Some(self.rng.below(3) as u8) } else { None };
                Op::Block { set: self.rng.chance(1, 2), dh, dt, abs_h, dn, chain, zero_time: self.rng.chance(1, self.p.zero_time) }
            }
            7 => {
                let v = if self.rng.chance(1, 5) { None } else { Some(format!("ext{}", self.uniq()).into_bytes()) };
                Op::External { target: self.target_contract(), k: self.rng.pick(&KEY_POOL).to_vec(), v }
            }
            _ => Op::Queries,
        }
    }

    fn kind(&mut self) -> CodeKind {
        if self.rng.chance(1, 12) {
            CodeKind::WrappedBare
        } else if self.pc(self.p.empty_kind) {
            CodeKind::WrappedEmpty
        } else if self.rng.chance(1, 2) {
            CodeKind::Wrapped
        } else {
            CodeKind::Direct
        }
    }

    fn store_op(&mut self) -> Op {
        let creator = self.rng.below(self.n_accounts as u64) as u32;
        let with_checksum = if self.pc(self.p.own_checksum) { Some(self.rng.below(3) as u8) } else { None };
        let r = self.rng.below(10);
        let op = if r < 5 {
            Op::StoreCode { kind: self.kind(), creator, with_checksum }
        } else if r < 8 {
            let id = *self.rng.pick(&[0u64, 1, 2, 5, 9, 100, 1 << 40, 3, 4, u64::MAX - 1, u64::MAX - 1, u64::MAX]);
            Op::StoreCodeWithId { kind: self.kind(), creator, id, with_checksum }
        } else if r < 9 {
            Op::DuplicateCode { code: self.rng.below(self.n_codes as u64 + 1) as u32 }
        } else {
            Op::DuplicateRaw { id: *self.rng.pick(&[0u64, 77_777]) }
        };
        // the slot count is an upper bound: a rejected store does not create a slot, and
        // references beyond the stored codes resolve to unused ids
        if !matches!(op, Op::DuplicateRaw { .. }) {
            self.n_codes += 1;
        }
        op
    }
}

fn gen_case(rng: &mut Rng, cfg: &Cfg) -> Case {
    let p = profile(&cfg.property, cfg.tier, rng);
    let n_accounts = 2 + rng.below(4) as u32;
    let n_denoms = 1 + rng.below(3) as u32;
    let n_validators = rng.below(3) as u32;
    let mut init_balances = vec![];
    for _ in 0..n_accounts * n_denoms {
        init_balances.push(match rng.below(6) {
            0 => 0,
            1 => rng.range(1, 20),
            _ => rng.range(100, 100_000),
        });
    }
    let mut module_faults = vec![];
    if rng.below(100) < p.module_faults {
        let kinds = ["custom", "ibc", "gov", "stargate", "any", "bank", "staking", "distribution", "custom.query", "ibc.query", "stargate.query", "grpc.query", "wasm", "wasm", "wasm.query", "wasm.sudo"];
        let _ = kinds.len();
        for _ in 0..1 + rng.below(3) {
            module_faults.push((rng.pick(&kinds).to_string(), rng.below(12) as u32));
        }
    }
    let unbonding_secs = *rng.pick(&[1u64, 60, 60, 3600]);
    let nops = 3 + rng.usize(p.ops);
    let admin_bias = cfg.property == "C12" || rng.chance(1, 4);
    let plain_accounts = if rng.chance(1, if cfg.property == "C12" || cfg.property == "C05" { 3 } else { 6 }) { 1 + rng.below(4) as u8 } else { 0 };
    let plain_accounts = plain_accounts.min(n_accounts.saturating_sub(1) as u8);
    // the favourite admin: account 0, or (half of the runs that have one) the plain-named "owner"
    let admin_acct = if plain_accounts > 0 && rng.chance(1, 2) { n_accounts - 1 } else { 0 };
    let prestore = rng.chance(1, if cfg.property == "C11" || cfg.property == "C20" { 3 } else { 8 });
    let mut g = Gen { rng, p, nid: 0, n_accounts, n_denoms, n_validators, n_codes: if prestore { 1 } else { 0 }, n_slots: 0, n_live: 0, admin_bias, admin_acct, huge_left: n_denoms.saturating_sub(1), many_done: false, self_admin: vec![], nodes_left: 0, uniq: 0, recent: vec![] };
    let mut ops = vec![];
    // setup prefix: codes and a few contracts (at least two from the same code)
    let ncodes = 2 + g.rng.below(3);
    for i in 0..ncodes {
        if i == 1 && g.rng.chance(1, 3) {
            let id = *g.rng.pick(&[5u64, 100, 9]);
            let kind = g.kind();
            ops.push(Op::StoreCodeWithId { kind, creator: 0, id, with_checksum: None });
        } else {
            let kind = g.kind();
            let with_checksum = if g.pc(g.p.own_checksum) { Some(0) } else { None };
            ops.push(Op::StoreCode { kind, creator: g.rng.below(n_accounts as u64) as u32, with_checksum });
        }
        g.n_codes += 1;
    }
    if g.rng.chance(1, 3) {
        ops.push(Op::DuplicateCode { code: g.rng.below(g.n_codes as u64) as u32 });
        g.n_codes += 1;
    }
    let ncontracts = 2 + g.rng.below(3);
    let first_code = g.rng.below(g.n_codes as u64) as u32;
    for i in 0..ncontracts {
        let slot = g.n_slots;
        g.n_slots += 1;
        let nid = g.next_nid();
        let node = Node { nid, bind: Some(slot), writes: vec![WriteOp::Set { k: KeySpec::Lit(b"init".to_vec()), v: format!("init{}", slot).into_bytes() }], ..Default::default() };
        let code = if i < 2 { first_code } else { g.rng.below(g.n_codes as u64) as u32 };
        let admin = match g.rng.below(5) {
            0 => None,
            1 if i > 0 => Some(Target::Contract(0)),
            // its own admin (made so right after its creation, by its first admin)
            4 => Some(Target::Account(0)),
            _ => Some(if g.admin_bias { Target::Account(g.admin_acct) } else { Target::Account(g.rng.below(n_accounts as u64) as u32) }),
        };
        let own_admin = admin == Some(Target::Account(0)) && g.rng.chance(1, if g.admin_bias { 4 } else { 2 });
        let funds = if g.rng.chance(1, 2) { vec![CoinSpec { denom: 0, amt: Amt::Abs(g.rng.range(1, 40)) }] } else { vec![] };
        ops.push(Op::HInstantiate { sender: g.rng.below(n_accounts as u64) as u32, code, slot, node, funds, label: format!("c{}", slot), admin, salt: None });
        if own_admin {
            g.self_admin.push(slot);
            ops.push(Op::Exec { sender: 0, msg: MsgSpec::UpdateAdmin { target: Target::Contract(slot), admin: Target::Contract(slot) }, sweep: false });
        }
        g.n_live += 1;
        // most contracts get working capital, so that funds attached by contracts do not always overdraw
        if g.rng.chance(3, 4) {
            let coins = (0..n_denoms).map(|d| CoinSpec { denom: d, amt: Amt::Abs(g.rng.range(50, 2000)) }).collect();
            ops.push(Op::Mint { to: Target::Contract(slot), coins });
        }
    }
    for _ in 0..nops {
        let op = g.op();
        ops.push(op);
    }
    ops.push(Op::Queries);
    // which implementation answers behind each recorder: mostly the stub with its fault plan,
    // otherwise the repo's own accepting / failing / caching modules
    let mut module_cfg = [0u8; 4];
    let cfg_rate = if cfg.property == "C17" { 60 } else { 20 };
    for (i, c) in module_cfg.iter_mut().enumerate() {
        if g.rng.below(100) < cfg_rate {
            *c = if i == 0 { 1 + g.rng.below(3) as u8 } else { 1 + g.rng.below(2) as u8 };
        }
    }
    let adv_rate = if cfg.property == "C08" || cfg.property == "C11" { 4 } else { 12 };
    let adv_addr = g.rng.chance(1, adv_rate);
    Case { prefix: g.rng.below(4) as u8, n_accounts, n_denoms, n_validators, init_balances, module_faults, unbonding_secs, module_cfg, adv_addr, creator_checksums: g.rng.chance(1, 5), plain_accounts, focus: cfg.property.clone(), prestore, std_api: g.rng.chance(1, 4), ops }
}

// ------------------------------------------------------------------ minimisation

fn node_variants(n: &Node) -> Vec<Node> {
    let mut out = vec![];
    // drop sub-messages
    for i in 0..n.subs.len() {
        let mut c = n.clone();
        c.subs.remove(i);
        out.push(c);
    }
    if !n.queries.is_empty() {
        let mut c = n.clone();
        c.queries.clear();
        out.push(c);
        if n.queries.len() > 1 {
            for i in 0..n.queries.len() {
                let mut c = n.clone();
                c.queries.remove(i);
                out.push(c);
            }
        }
    }
    if !n.reads.is_empty() {
        let mut c = n.clone();
        c.reads.clear();
        out.push(c);
        if n.reads.len() > 1 {
            for i in 0..n.reads.len() {
                let mut c = n.clone();
                c.reads.remove(i);
                out.push(c);
            }
        }
    }
    if !n.post_reads.is_empty() {
        let mut c = n.clone();
        c.post_reads.clear();
        out.push(c);
    }
    if !n.writes.is_empty() {
        let mut c = n.clone();
        c.writes.clear();
        out.push(c);
        if n.writes.len() > 1 {
            for i in 0..n.writes.len() {
                let mut c = n.clone();
                c.writes.remove(i);
                out.push(c);
            }
        }
    }
    if !n.attrs.is_empty() {
        let mut c = n.clone();
        c.attrs.clear();
        out.push(c);
        if n.attrs.len() > 1 {
            for i in 0..n.attrs.len() {
                let mut c = n.clone();
                c.attrs.remove(i);
                out.push(c);
            }
        }
    }
    if !n.events.is_empty() {
        let mut c = n.clone();
        c.events.clear();
        out.push(c);
        for i in 0..n.events.len() {
            if n.events.len() > 1 {
                let mut c = n.clone();
                c.events.remove(i);
                out.push(c);
            }
            if !n.events[i].attrs.is_empty() {
                let mut c = n.clone();
                c.events[i].attrs.clear();
                out.push(c);
            }
        }
    }
    if n.data.is_some() {
        let mut c = n.clone();
        c.data = None;
        out.push(c);
    }
    if n.fail {
        let mut c = n.clone();
        c.fail = false;
        out.push(c);
    }
    // simplify each sub in place
    for (i, s) in n.subs.iter().enumerate() {
        if s.reply.is_some() {
            let mut c = n.clone();
            c.subs[i].reply = None;
            out.push(c);
        }
        if !s.payload.is_empty() {
            let mut c = n.clone();
            c.subs[i].payload = vec![];
            out.push(c);
        }
        if s.id != 1 {
            let mut c = n.clone();
            c.subs[i].id = 1;
            out.push(c);
        }
        for v in msg_variants(&s.msg) {
            let mut c = n.clone();
            c.subs[i].msg = v;
            out.push(c);
        }
        if let Some(r) = &s.reply {
            for v in node_variants(r) {
                let mut c = n.clone();
                c.subs[i].reply = Some(Box::new(v));
                out.push(c);
            }
        }
    }
    out
}

fn msg_variants(m: &MsgSpec) -> Vec<MsgSpec> {
    let mut out = vec![];
    match m {
        MsgSpec::Exec { target, node, funds } => {
            if !funds.is_empty() {
                out.push(MsgSpec::Exec { target: target.clone(), node: node.clone(), funds: vec![] });
            }
            for v in node_variants(node) {
                out.push(MsgSpec::Exec { target: target.clone(), node: Box::new(v), funds: funds.clone() });
            }
        }
        MsgSpec::Inst { code, slot, node, funds, label, admin, salt } => {
            if !funds.is_empty() {
                out.push(MsgSpec::Inst { code: *code, slot: *slot, node: node.clone(), funds: vec![], label: label.clone(), admin: admin.clone(), salt: salt.clone() });
            }
            if salt.is_some() {
                out.push(MsgSpec::Inst { code: *code, slot: *slot, node: node.clone(), funds: funds.clone(), label: label.clone(), admin: admin.clone(), salt: None });
            }
            if admin.is_some() {
                out.push(MsgSpec::Inst { code: *code, slot: *slot, node: node.clone(), funds: funds.clone(), label: label.clone(), admin: None, salt: salt.clone() });
            }
            for v in node_variants(node) {
                out.push(MsgSpec::Inst { code: *code, slot: *slot, node: Box::new(v), funds: funds.clone(), label: label.clone(), admin: admin.clone(), salt: salt.clone() });
            }
        }
        MsgSpec::Migrate { target, code, node } => {
            for v in node_variants(node) {
                out.push(MsgSpec::Migrate { target: target.clone(), code: *code, node: Box::new(v) });
            }
        }
        MsgSpec::Send { to, coins } if coins.len() > 1 => {
            for i in 0..coins.len() {
                let mut c = coins.clone();
                c.remove(i);
                out.push(MsgSpec::Send { to: to.clone(), coins: c });
            }
        }
        _ => {}
    }
    out
}

fn op_variants(op: &Op) -> Vec<Op> {
    let mut out = vec![];
    match op {
        Op::Exec { sender, msg, sweep } => {
            if *sweep {
                out.push(Op::Exec { sender: *sender, msg: msg.clone(), sweep: false });
                // make the failing sweep variant explicit
                if let Some(n) = msg.node() {
                    for site in 0..n.count() {
                        let mut v = msg.clone();
                        let mut idx = 0;
                        v.node_mut().unwrap().visit_mut(&mut |nd| {
                            if idx == site {
                                nd.fail = true;
                            }
                            idx += 1;
                        });
                        out.push(Op::Exec { sender: *sender, msg: v, sweep: false });
                    }
                }
            }
            for v in msg_variants(msg) {
                out.push(Op::Exec { sender: *sender, msg: v, sweep: *sweep });
            }
        }
        Op::Multi { sender, msgs } => {
            if msgs.len() == 1 {
                out.push(Op::Exec { sender: *sender, msg: msgs[0].clone(), sweep: false });
            }
            for i in 0..msgs.len() {
                if msgs.len() > 1 {
                    let mut c = msgs.clone();
                    c.remove(i);
                    out.push(Op::Multi { sender: *sender, msgs: c });
                }
                for v in msg_variants(&msgs[i]) {
                    let mut c = msgs.clone();
                    c[i] = v;
                    out.push(Op::Multi { sender: *sender, msgs: c });
                }
            }
        }
        Op::WasmSudo { target, node, via_router } => {
            for v in node_variants(node) {
                out.push(Op::WasmSudo { target: target.clone(), node: v, via_router: *via_router });
            }
        }
        Op::HInstantiate { sender, code, slot, node, funds, label, admin, salt } => {
            if !funds.is_empty() {
                out.push(Op::HInstantiate { sender: *sender, code: *code, slot: *slot, node: node.clone(), funds: vec![], label: label.clone(), admin: admin.clone(), salt: salt.clone() });
            }
            for v in node_variants(node) {
                out.push(Op::HInstantiate { sender: *sender, code: *code, slot: *slot, node: v, funds: funds.clone(), label: label.clone(), admin: admin.clone(), salt: salt.clone() });
            }
        }
        Op::HExecute { sender, target, node, funds } => {
            out.push(Op::Exec { sender: *sender, msg: MsgSpec::Exec { target: target.clone(), node: Box::new(node.clone()), funds: funds.clone() }, sweep: false });
            for v in node_variants(node) {
                out.push(Op::HExecute { sender: *sender, target: target.clone(), node: v, funds: funds.clone() });
            }
        }
        Op::HMigrate { sender, target, code, node } => {
            for v in node_variants(node) {
                out.push(Op::HMigrate { sender: *sender, target: target.clone(), code: *code, node: v });
            }
        }
        _ => {}
    }
    out
}

impl Engine for ChainSim {
    type Case = Case;
    fn name(&self) -> &'static str {
        "chainsim"
    }
    fn properties(&self) -> &'static [&'static str] {
        &["C01", "C02", "C03", "C04", "C05", "C08", "C09", "C10", "C11", "C12", "C13", "C17"]
    }
    fn budget(&self, cfg: &Cfg) -> Budget {
        match cfg.tier {
            Tier::Quick => Budget { runs: 100_000, max_secs: 40.0 },
            Tier::Thorough => Budget { runs: 5_000_000, max_secs: 480.0 },
        }
    }
    fn generate(&self, rng: &mut Rng, cfg: &Cfg) -> Case {
        gen_case(rng, cfg)
    }
    fn execute(&self, case: &Case) -> RunResult {
        execute_case(case)
    }
    fn shrink(&self, case: &Case) -> Vec<Case> {
        let mut out = vec![];
        for (s, e) in ddmin_drops(case.ops.len()) {
            let mut c = case.clone();
            c.ops = drop_range(&case.ops, s, e);
            out.push(c);
        }
        if !case.module_faults.is_empty() {
            let mut c = case.clone();
            c.module_faults.clear();
            out.push(c);
            if case.module_faults.len() > 1 {
                for i in 0..case.module_faults.len() {
                    let mut c = case.clone();
                    c.module_faults.remove(i);
                    out.push(c);
                }
            }
        }
        if case.prefix != 0 {
            let mut c = case.clone();
            c.prefix = 0;
            out.push(c);
        }
        if case.creator_checksums {
            let mut c = case.clone();
            c.creator_checksums = false;
            out.push(c);
        }
        if case.plain_accounts > 0 {
            let mut c = case.clone();
            c.plain_accounts -= 1;
            out.push(c);
        }
        if case.adv_addr {
            let mut c = case.clone();
            c.adv_addr = false;
            out.push(c);
        }
        if case.module_cfg != [0; 4] {
            let mut c = case.clone();
            c.module_cfg = [0; 4];
            out.push(c);
            for i in 0..4 {
                if case.module_cfg[i] != 0 {
                    let mut c = case.clone();
                    c.module_cfg[i] = 0;
                    out.push(c);
                }
            }
        }
        if case.n_validators > 0 {
            let mut c = case.clone();
            c.n_validators = 0;
            out.push(c);
        }
        if case.n_denoms > 1 {
            let mut c = case.clone();
            c.n_denoms = 1;
            c.init_balances = (0..case.n_accounts as usize).map(|a| case.init_balances.get(a * case.n_denoms as usize).copied().unwrap_or(0)).collect();
            out.push(c);
        }
        for (i, op) in case.ops.iter().enumerate() {
            for v in op_variants(op) {
                let mut c = case.clone();
                c.ops[i] = v;
                out.push(c);
            }
        }
        out
    }
    fn rule(&self) -> String {
        "one case = chain configuration (bech32 prefix, accounts incl. optional plain-named ones, denominations, validators, module fault plan, what answers behind the module recorders, optional adversarial address generator and creator-dependent checksum generator) + a seeded history of operations: store/duplicate code, execute / execute_multi / sudo / wasm_sudo / Executor helpers with generated message trees (contract calls, instantiate(2), migrate, admin changes, bank, staking, custom/ibc/gov/stargate/any; reply_on modes, ids, payloads, attributes, events, data of 0 .. 20000 bytes, attached funds relative to the balance, scripted reads / writes incl. restore and bulk writes, nested smart queries; contracts in four packagings), block updates (height, seconds, nanoseconds, chain id, time 0), external storage writes and App-level query batteries; faults (body errors, reply errors, malformed responses, overdrafts, module rejections) are placed by the PRNG and, for swept trees, at every single site. After every step the real App is compared with the reference model (outcome, invocation trace, module-call trace, responses, balances, registry, contract storage, raw root diff). Non-trivial = at least one injected fault fired in the run. Distinct = hash of (tree shapes x reply modes x message kinds x fail flags, fired-fault kinds x min(count,2)).".to_string()
    }
    fn assumptions(&self, _cfg: &Cfg) -> Vec<String> {
        vec![
            "the reference model (sim/src/model/chain.rs) is hand-written from the property statements and trusted".into(),
            "fresh contract addresses and code checksums are learned from the real run (never predicted) and then checked for freshness / stability".into(),
            "error texts, msg_responses type URLs, gas and the `created` height are not compared".into(),
            "the bank `transfer` event is modelled as recipient, sender, amount (the coins as given); funds attached to execute/instantiate contribute no event".into(),
            "staking inside chainsim runs with APR 0 and without slashing (integral ledger); the events of staking/distribution messages are taken from the real keeper (opaque to the composition rules)".into(),
            "balances stay far below 2^120 (amounts <= 10^6 per operation)".into(),
        ]
    }
    fn components(&self) -> serde_json::Value {
        json!({
            "real": ["App", "AppBuilder", "Router", "WasmKeeper", "BankKeeper (inside RecBank)", "StakeKeeper (inside RecStaking)", "DistributionKeeper (inside RecDistr)", "transactional / StorageTransaction", "PrefixedStorage", "ContractWrapper (Wrapped and WrappedEmpty code kinds)", "MockApiBech32", "SimpleAddressGenerator", "SimpleChecksumGenerator", "Executor helpers"],
            "shim_around_real": ["RecBank", "RecStaking", "RecDistr"],
            "stub": ["SimContract script interpreter", "RecCustom", "RecIbc", "RecGov", "RecStargate", "SimStorage as root store"],
            "model": ["model::chain (bank ledger, registry, per-contract KV, lite staking, dispatch semantics)"]
        })
    }
}
