//! twin mode / C19: the same explicit operation list executed on independent application
//! instances - sequentially, interleaved by the seeded scheduler, with a noise instance of a
//! different configuration in between, with the twin created late - and, for a share of the
//! runs, in fresh child processes that differ only in what another instance did before.
//! Compared: per-step digests of everything observable (ok/err, events, data, code ids,
//! checksums, addresses, query answers, root store digest) and the final root store bytes.

use super::{chaingen, chainsim, stakesim};
use crate::harness::*;
use crate::prng::{Fnv, Rng};
use serde::{Deserialize, Serialize};
use serde_json::json;
use std::collections::BTreeMap;
use std::io::Write;

const P: &str = "C19";

#[derive(Clone, Debug, Serialize, Deserialize)]
pub enum Case {
    Chain { main: chainsim::Case, noise: chainsim::Case, sched: Vec<u8>, subprocess: bool, #[serde(default)] skew_ms: u32 },
    Stake { main: stakesim::Case, noise: stakesim::Case, sched: Vec<u8>, subprocess: bool, #[serde(default)] skew_ms: u32 },
}

pub struct TwinSim;

/// One instance being stepped.
trait Inst {
    fn step_one(&mut self) -> bool; // false when no operation is left
    fn digests(&self) -> &Vec<u64>;
    fn root(&self) -> BTreeMap<Vec<u8>, Vec<u8>>;
}

struct ChainInst {
    sim: chainsim::Sim,
    ops: Vec<crate::ops::Op>,
    pos: usize,
    stopped: bool,
}

impl Inst for ChainInst {
    fn step_one(&mut self) -> bool {
        if self.pos >= self.ops.len() || self.stopped {
            return false;
        }
        let op = self.ops[self.pos].clone();
        self.pos += 1;
        if !self.sim.step(&op) {
            // a model-oracle violation belongs to another property; both twins stop at the same point
            self.stopped = true;
        }
        true
    }
    fn digests(&self) -> &Vec<u64> {
        &self.sim.step_digs
    }
    fn root(&self) -> BTreeMap<Vec<u8>, Vec<u8>> {
        self.sim.app.storage().snapshot()
    }
}

struct StakeInst {
    run: stakesim::Run,
    ops: Vec<stakesim::SOp>,
    pos: usize,
    digs: Vec<u64>,
}

impl Inst for StakeInst {
    fn step_one(&mut self) -> bool {
        if self.pos >= self.ops.len() || !self.run.viol.is_empty() {
            return false;
        }
        let op = self.ops[self.pos].clone();
        self.pos += 1;
        self.run.step(&op);
        self.run.dig.write_u64(self.run.app.storage().digest());
        self.digs.push(self.run.dig.finish());
        true
    }
    fn digests(&self) -> &Vec<u64> {
        &self.digs
    }
    fn root(&self) -> BTreeMap<Vec<u8>, Vec<u8>> {
        self.run.app.storage().snapshot()
    }
}

fn make_chain(c: &chainsim::Case) -> Box<dyn Inst> {
    Box::new(ChainInst { sim: chainsim::Sim::new(c), ops: c.ops.clone(), pos: 0, stopped: false })
}

fn make_stake(c: &stakesim::Case) -> Box<dyn Inst> {
    Box::new(StakeInst { run: stakesim::build(c), ops: c.ops.clone(), pos: 0, digs: vec![] })
}

/// Runs A, B (same case) and N (noise) under the schedule; instances are created on first use.
fn run_schedule(mk_main: &dyn Fn() -> Box<dyn Inst>, mk_noise: &dyn Fn() -> Box<dyn Inst>, sched: &[u8], with: (bool, bool, bool), skew_ms: u32) -> (Option<Box<dyn Inst>>, Option<Box<dyn Inst>>) {
    let mut a: Option<Box<dyn Inst>> = None;
    let mut b: Option<Box<dyn Inst>> = None;
    let mut n: Option<Box<dyn Inst>> = None;
    let turn = |who: u8, a: &mut Option<Box<dyn Inst>>, b: &mut Option<Box<dyn Inst>>, n: &mut Option<Box<dyn Inst>>| -> bool {
        match who % 3 {
            0 if with.0 => a.get_or_insert_with(|| mk_main()).step_one(),
            1 if with.1 => b
                .get_or_insert_with(|| {
                    // injected clock skew: real time passes between the creation of the twins
                    if skew_ms > 0 {
                        std::thread::sleep(std::time::Duration::from_millis(skew_ms as u64));
                    }
                    mk_main()
                })
                .step_one(),
            2 if with.2 => n.get_or_insert_with(|| mk_noise()).step_one(),
            _ => false,
        }
    };
    for w in sched {
        turn(*w, &mut a, &mut b, &mut n);
    }
    // finish whatever is left, in the order A, B, N
    for who in 0..3u8 {
        while turn(who, &mut a, &mut b, &mut n) {}
    }
    crate::world::set_current_world(None);
    (a, b)
}

fn transcript_of(i: &dyn Inst) -> Vec<u64> {
    let mut t = i.digests().clone();
    t.push(crate::storage::digest_map(&i.root()));
    t
}

/// Child process entry: executes the case in the given arrangement and prints A's transcript.
pub fn child_main(arrangement: &str) -> i32 {
    let mut text = String::new();
    if std::io::Read::read_to_string(&mut std::io::stdin(), &mut text).is_err() {
        return 2;
    }
    let case: Case = match serde_json::from_str(&text) {
        Ok(c) => c,
        Err(_) => return 2,
    };
    let (noise_first, with_noise) = match arrangement {
        "alone" => (false, false),
        "noise-first" => (true, true),
        _ => return 2,
    };
    let sched: Vec<u8> = if noise_first { vec![2; 100_000] } else { vec![] };
    let r = std::panic::catch_unwind(std::panic::AssertUnwindSafe(|| match &case {
        Case::Chain { main, noise, .. } => run_schedule(&|| make_chain(main), &|| make_chain(noise), &sched, (true, false, with_noise), 0),
        Case::Stake { main, noise, .. } => run_schedule(&|| make_stake(main), &|| make_stake(noise), &sched, (true, false, with_noise), 0),
    }));
    match r {
        Ok((Some(a), _)) => {
            for d in transcript_of(a.as_ref()) {
                println!("{:016x}", d);
            }
        }
        Ok(_) => {}
        Err(_) => {
            if crate::harness::last_panic_was_in_checker() {
                return 2;
            }
            // the simulator panicked in this arrangement: that is this arrangement's transcript
            println!("{:016x}", u64::MAX);
        }
    }
    0
}

fn child_transcript(case: &Case, arrangement: &str) -> Option<Vec<u64>> {
    let exe = std::env::current_exe().ok()?;
    let mut ch = std::process::Command::new(exe)
        .arg("twin-child")
        .arg(arrangement)
        .stdin(std::process::Stdio::piped())
        .stdout(std::process::Stdio::piped())
        .stderr(std::process::Stdio::null())
        .spawn()
        .ok()?;
    ch.stdin.take()?.write_all(serde_json::to_string(case).ok()?.as_bytes()).ok()?;
    let out = ch.wait_with_output().ok()?;
    if !out.status.success() {
        return None;
    }
    let text = String::from_utf8_lossy(&out.stdout);
    Some(text.lines().filter_map(|l| u64::from_str_radix(l.trim(), 16).ok()).collect())
}

fn first_diff(a: &[u64], b: &[u64]) -> Option<usize> {
    if a == b {
        return None;
    }
    Some(a.iter().zip(b.iter()).position(|(x, y)| x != y).unwrap_or(a.len().min(b.len())))
}

impl Engine for TwinSim {
    type Case = Case;
    fn name(&self) -> &'static str {
        "twinsim"
    }
    fn properties(&self) -> &'static [&'static str] {
        &["C19"]
    }
    fn budget(&self, cfg: &Cfg) -> Budget {
        match cfg.tier {
            Tier::Quick => Budget { runs: 6_000, max_secs: 45.0 },
            Tier::Thorough => Budget { runs: 400_000, max_secs: 480.0 },
        }
    }
    fn generate(&self, rng: &mut Rng, cfg: &Cfg) -> Case {
        let mode = rng.below(4);
        let subprocess = rng.chance(1, 5);
        // rarely: let more than a second of real time pass between the twins (sequential schedule)
        let skew_ms: u32 = if rng.chance(1, 50) { 1100 } else { 0 };
        let mode = if skew_ms > 0 { 0 } else { mode };
        let gen_sched = |rng: &mut Rng, n: usize| -> Vec<u8> {
            match mode {
                0 => vec![],                                   // sequential: A fully, then B
                1 => (0..n * 2).map(|_| rng.below(2) as u8).collect(), // A and B interleaved
                2 => (0..n * 3).map(|_| rng.below(3) as u8).collect(), // A, B and the noise instance interleaved
                _ => {
                    // the noise instance and A run first; the twin is created late
                    let mut s = vec![2u8; n];
                    s.extend(vec![0u8; n / 2]);
                    s.extend((0..n * 2).map(|_| rng.below(3) as u8));
                    s
                }
            }
        };
        if rng.chance(2, 3) {
            let ccfg = Cfg { property: (*rng.pick(&["C01", "C02", "C11", "C17", "C05", "C19", "C19"])).to_string(), tier: cfg.tier, seed: cfg.seed };
            let mut main = chaingen::ChainSim.generate(rng, &ccfg);
            let mut noise = chaingen::ChainSim.generate(rng, &ccfg);
            main.focus = "C19".to_string();
            noise.focus = "C19".to_string();
            // the noise instance is configured differently (another address prefix)
            noise.prefix = main.prefix.wrapping_add(1 + rng.below(3) as u8);
            let n = main.ops.len();
            Case::Chain { main, noise, sched: gen_sched(rng, n), subprocess, skew_ms }
        } else {
            let scfg = Cfg { property: (*rng.pick(&["C14", "C15", "C15", "C16"])).to_string(), tier: cfg.tier, seed: cfg.seed };
            let mut main = stakesim::StakeSim.generate(rng, &scfg);
            let mut noise = stakesim::StakeSim.generate(rng, &scfg);
            // the decoy of the staking engine is this engine's noise instance
            main.decoy = false;
            noise.decoy = false;
            noise.prefix = main.prefix.wrapping_add(1 + rng.below(3) as u8);
            // the noise instance is configured differently: other staking parameters (usually another bonded
            // denomination, always another annual rate)
            if rng.chance(2, 3) {
                noise.bonded = (main.bonded + 1 + rng.below(2) as u8) % 3;
            } else {
                noise.bonded = main.bonded;
            }
            if noise.apr == main.apr {
                noise.apr = (main.apr + 2_500) % 10_001;
            }
            let n = main.ops.len();
            Case::Stake { main, noise, sched: gen_sched(rng, n), subprocess, skew_ms }
        }
    }
    fn execute(&self, case: &Case) -> RunResult {
        let body = || -> RunResult {
        let mut stats = RunStats::default();
        let mut viol = vec![];
        let (a, b, sched_len, subprocess, kind) = match case {
            Case::Chain { main, noise, sched, subprocess, skew_ms } => {
                let (a, b) = run_schedule(&|| make_chain(main), &|| make_chain(noise), sched, (true, true, true), *skew_ms);
                if *skew_ms > 0 {
                    stats.fault("wall_clock_skew_between_twins");
                }
                (a, b, sched.len(), *subprocess, "chain")
            }
            Case::Stake { main, noise, sched, subprocess, skew_ms } => {
                let (a, b) = run_schedule(&|| make_stake(main), &|| make_stake(noise), sched, (true, true, true), *skew_ms);
                if *skew_ms > 0 {
                    stats.fault("wall_clock_skew_between_twins");
                }
                (a, b, sched.len(), *subprocess, "stake")
            }
        };
        let (a, b) = match (a, b) {
            (Some(a), Some(b)) => (a, b),
            _ => return RunResult::default(),
        };
        let ta = transcript_of(a.as_ref());
        let tb = transcript_of(b.as_ref());
        stats.steps = (ta.len() + tb.len()) as u64;
        stats.fault(if sched_len == 0 { "schedule_sequential" } else { "schedule_interleaved" });
        if let Some(i) = first_diff(&ta, &tb) {
            let what = if i + 1 >= ta.len().max(tb.len()) { "the final root store".to_string() } else { format!("step {}", i) };
            viol.push(Violation::new(P, "C19.twin_divergence", format!("two instances given the same {} operation list diverge at {} (of {} steps)", kind, what, ta.len() - 1)));
        } else if a.root() != b.root() {
            viol.push(Violation::new(P, "C19.twin_divergence", "final root stores of the twins differ byte-wise".to_string()));
        }
        if viol.is_empty() {
            // (6) "shadowed": the same list once more, with a differently configured instance created right
            // after this one (before its first operation) and kept alive, never stepped
            let shadow: Option<Box<dyn Inst>> = match case {
                Case::Chain { main, noise, .. } => {
                    let mut x = make_chain(main);
                    let _n = make_chain(noise);
                    while x.step_one() {}
                    Some(x)
                }
                Case::Stake { main, noise, .. } => {
                    let mut x = make_stake(main);
                    let _n = make_stake(noise);
                    while x.step_one() {}
                    Some(x)
                }
            };
            crate::world::set_current_world(None);
            stats.fault("shadow_instance_created_after");
            if let Some(x) = shadow {
                let tx = transcript_of(x.as_ref());
                if let Some(i) = first_diff(&ta, &tx) {
                    viol.push(Violation::new(P, "C19.instance_interference", format!("the same {} operation list gives a different transcript (from step {}) when another, differently configured instance is created right after this one", kind, i)));
                }
            }
        }
        if subprocess && viol.is_empty() {
            stats.fault("fresh_process_comparison");
            let alone = child_transcript(case, "alone");
            let after_noise = child_transcript(case, "noise-first");
            match (alone, after_noise) {
                (Some(x), Some(y)) => {
                    if let Some(i) = first_diff(&x, &y) {
                        viol.push(Violation::new(P, "C19.instance_interference", format!("the same {} operation list gives a different transcript (from step {}) when another, differently configured instance ran before it in the same process", kind, i)));
                    } else if let Some(i) = first_diff(&x, &ta) {
                        viol.push(Violation::new(P, "C19.process_dependence", format!("the transcript of the {} operation list in a fresh process differs from the in-process one at step {}", kind, i)));
                    }
                }
                _ => {
                    // a child that cannot be run is a harness problem, reported as such by panicking here
                    panic!("twin child process failed");
                }
            }
        }
        let mut sig = Fnv::new();
        sig.write_str(kind);
        for d in &ta {
            sig.write_u64(*d);
        }
        stats.signature = sig.finish();
        stats.nontrivial = sched_len > 0 || subprocess;
        let mut dig = Fnv::new();
        for d in ta.iter().chain(tb.iter()) {
            dig.write_u64(*d);
        }
        dig.write_u64(viol.len() as u64);
        stats.digest = dig.finish();
        RunResult { violations: viol, stats }
        };
        // a panic of the simulator that escapes every per-call guard (while an instance is being built, say)
        // in one arrangement is a divergence between arrangements; a panic of the checker's own code is not
        match std::panic::catch_unwind(std::panic::AssertUnwindSafe(body)) {
            Ok(r) => r,
            Err(p) => {
                if crate::harness::last_panic_was_in_checker() {
                    std::panic::resume_unwind(p);
                }
                crate::world::set_current_world(None);
                RunResult {
                    violations: vec![Violation::new(P, "C19.panic", format!("the simulator panicked while one of the instances was built or stepped: {}", crate::harness::panic_message(&p)))],
                    stats: RunStats::default(),
                }
            }
        }
    }
    fn shrink(&self, case: &Case) -> Vec<Case> {
        let mut out = vec![];
        match case {
            Case::Chain { main, noise, sched, subprocess, skew_ms } => {
                let skew_ms = *skew_ms;
                for (s, e) in ddmin_drops(main.ops.len()) {
                    let mut m = main.clone();
                    m.ops = drop_range(&main.ops, s, e);
                    out.push(Case::Chain { main: m, noise: noise.clone(), sched: sched.clone(), subprocess: *subprocess, skew_ms });
                }
                for (s, e) in ddmin_drops(noise.ops.len()) {
                    let mut m = noise.clone();
                    m.ops = drop_range(&noise.ops, s, e);
                    out.push(Case::Chain { main: main.clone(), noise: m, sched: sched.clone(), subprocess: *subprocess, skew_ms });
                }
                if !sched.is_empty() {
                    out.push(Case::Chain { main: main.clone(), noise: noise.clone(), sched: vec![], subprocess: *subprocess, skew_ms });
                }
            }
            Case::Stake { main, noise, sched, subprocess, skew_ms } => {
                let skew_ms = *skew_ms;
                for (s, e) in ddmin_drops(main.ops.len()) {
                    let mut m = main.clone();
                    m.ops = drop_range(&main.ops, s, e);
                    out.push(Case::Stake { main: m, noise: noise.clone(), sched: sched.clone(), subprocess: *subprocess, skew_ms });
                }
                for (s, e) in ddmin_drops(noise.ops.len()) {
                    let mut m = noise.clone();
                    m.ops = drop_range(&noise.ops, s, e);
                    out.push(Case::Stake { main: main.clone(), noise: m, sched: sched.clone(), subprocess: *subprocess, skew_ms });
                }
                if !sched.is_empty() {
                    out.push(Case::Stake { main: main.clone(), noise: noise.clone(), sched: vec![], subprocess: *subprocess, skew_ms });
                }
                if main.n_delegators > 2 {
                    let mut m = main.clone();
                    m.n_delegators -= 1;
                    out.push(Case::Stake { main: m, noise: noise.clone(), sched: sched.clone(), subprocess: *subprocess, skew_ms });
                }
            }
        }
        out
    }
    fn replay_attempts(&self) -> u32 {
        8
    }
    fn rule(&self) -> String {
        "one case = a chainsim or stakesim operation list (failing transactions included), a second list for a noise instance with another address prefix, and a seeded schedule over {twin A, twin B, noise}: sequential (A then B), A/B interleaved step by step, A/B/noise interleaved, or noise and half of A first with twin B created late; one run in five additionally executes the list in two fresh child processes, alone and after the noise instance, and compares the transcripts. Transcript = per-step digest of ok/err, events, data, code ids, checksums, contract addresses (invocation trace), query answers and root-store digest, plus the final root store byte for byte. Non-trivial = an interleaved schedule or a fresh-process comparison. Distinct = hash of the transcript.".to_string()
    }
    fn assumptions(&self, _cfg: &Cfg) -> Vec<String> {
        vec![
            "a dependence on wall-clock time coarser than the duration of a run (or of a child process) would not show; there is no clock seam to own because the crate never reads one".into(),
            "model-oracle violations inside an instance belong to other properties; here only differences between executions are reported".into(),
        ]
    }
    fn components(&self) -> serde_json::Value {
        json!({"real": ["everything chainsim and stakesim run (App, Router, keepers, overlay, ContractWrapper, MockApiBech32, address and checksum generators)"], "stub": ["scripted contracts", "recording modules", "SimStorage root"], "model": ["none: the oracle is transcript equality between executions"]})
    }
}
