//! kvsim / C07: several namespace views and a raw writer interleaved on one base store,
//! through the public App accessors only, against a raw-key model.

use crate::harness::*;
use crate::prng::{Fnv, Rng};
use crate::storage::{dump, hex, model_range};
use cosmwasm_std::{Order, Storage};
use cw_multi_test::App;
use serde::{Deserialize, Serialize};
use serde_json::{json, Value};
use std::collections::BTreeMap;
use std::panic::{catch_unwind, AssertUnwindSafe};

type Map = BTreeMap<Vec<u8>, Vec<u8>>;
const P: &str = "C07";

/// Segment bytes in a compact form so that 65535-byte segments stay readable in replay files.
#[derive(Clone, Debug, Serialize, Deserialize, PartialEq)]
pub enum Seg {
    Bytes(Vec<u8>),
    Repeat { byte: u8, len: u32 },
}

impl Seg {
    pub fn bytes(&self) -> Vec<u8> {
        match self {
            Seg::Bytes(b) => b.clone(),
            Seg::Repeat { byte, len } => vec![*byte; *len as usize],
        }
    }
}

#[derive(Clone, Debug, Serialize, Deserialize, PartialEq)]
pub enum Op {
    Set { view: usize, k: Vec<u8>, v: Vec<u8> },
    Remove { view: usize, k: Vec<u8> },
    Get { view: usize, k: Vec<u8> },
    Range { view: usize, start: Option<Vec<u8>>, end: Option<Vec<u8>>, desc: bool },
    /// write attempt through the read-only accessor
    RoSet { view: usize, k: Vec<u8> },
    RoRemove { view: usize, k: Vec<u8> },
    /// several get / set / remove on ONE mutable view instance (g = get, s = set, r = remove)
    Seq { view: usize, steps: Vec<(u8, Vec<u8>, Vec<u8>)> },
    /// write, through the view, exactly the value that the base holds under the raw key that is byte-identical
    /// to this view key (if it holds one)
    SetAsRaw { view: usize, k: Vec<u8> },
    /// raw writer on the base
    RawSet { k: Vec<u8>, v: Vec<u8> },
    RawRemove { k: Vec<u8> },
    /// raw write relative to a view's encoded prefix: cut it to `cut` bytes, optionally bump the last byte, append
    RawNear { view: usize, cut: usize, bump: bool, tail: Vec<u8>, v: Vec<u8> },
}

#[derive(Clone, Debug, Serialize, Deserialize)]
pub struct Case {
    pub views: Vec<Vec<Seg>>,
    pub ops: Vec<Op>,
}

pub struct Pfx07;

pub fn encode_path(path: &[Vec<u8>]) -> Vec<u8> {
    let mut out = vec![];
    for seg in path {
        let n = seg.len() as u32;
        out.push((n >> 8) as u8);
        out.push((n & 0xff) as u8);
        out.extend_from_slice(seg);
    }
    out
}

fn window(raw: &Map, prefix: &[u8]) -> Map {
    raw.iter()
        .filter(|(k, _)| k.starts_with(prefix))
        .map(|(k, v)| (k[prefix.len()..].to_vec(), v.clone()))
        .collect()
}

fn seg_pool() -> Vec<Seg> {
    let b = |x: &[u8]| Seg::Bytes(x.to_vec());
    vec![
        b(b""),
        b(b"a"),
        b(b"ab"),
        b(b"b"),
        b(b"f\xff"),
        b(b"f\xff\xff"),
        b(b"\xff"),
        b(b"\xff\xff"),
        b(b"\x00"),
        b(b"\x00\x01b"),      // spells the encoding of segment "b"
        b(b"a\x00\x01b"),     // "a" followed by the encoding of "b"
        b(b"\x00\x00"),       // spells the encoding of the empty segment
        b(b"wasm"),
        b(b"bank"),
        b(b"g"),
    ]
}

fn small_key(rng: &mut Rng) -> Vec<u8> {
    let pool: [&[u8]; 12] = [b"", b"\x00", b"a", b"a\x00", b"ab", b"b", b"\xff", b"\xff\xff", b"\x00\x01b", b"\x00\x00", b"k", b"\xfe"];
    if rng.chance(1, 10) {
        let n = rng.usize(4);
        rng.bytes(n)
    } else {
        rng.pick(&pool).to_vec()
    }
}

fn with_view<'a, R>(app: &'a App, path: &[Vec<u8>], f: impl FnOnce(&dyn Storage) -> R) -> R {
    // single-segment paths alternate between the two accessors (decided by path length parity of the segment)
    if path.len() == 1 && path[0].len() % 2 == 0 {
        let v = app.prefixed_storage(&path[0]);
        f(v.as_ref())
    } else {
        let refs: Vec<&[u8]> = path.iter().map(|s| s.as_slice()).collect();
        let v = app.prefixed_multilevel_storage(&refs);
        f(v.as_ref())
    }
}

fn with_view_mut<R>(app: &mut App, path: &[Vec<u8>], f: impl FnOnce(&mut dyn Storage) -> R) -> R {
    if path.len() == 1 && path[0].len() % 2 == 0 {
        let mut v = app.prefixed_storage_mut(&path[0]);
        f(v.as_mut())
    } else {
        let refs: Vec<&[u8]> = path.iter().map(|s| s.as_slice()).collect();
        let mut v = app.prefixed_multilevel_storage_mut(&refs);
        f(v.as_mut())
    }
}

struct Ctx {
    stats: RunStats,
    dig: Fnv,
    viol: Vec<Violation>,
}

impl Ctx {
    fn fail(&mut self, class: &str, detail: String) {
        if self.viol.is_empty() {
            self.viol.push(Violation::new(P, class, detail));
        }
    }
}

fn fmt_recs(r: &[(Vec<u8>, Vec<u8>)]) -> String {
    let v: Vec<String> = r
        .iter()
        .map(|(k, v)| {
            if k.len() > 40 {
                format!("<{}B>={}", k.len(), hex(v))
            } else {
                format!("{}={}", hex(k), hex(v))
            }
        })
        .collect();
    format!("[{}]", v.join(","))
}

fn short(b: &[u8]) -> String {
    if b.len() > 40 {
        format!("<{} bytes {}..>", b.len(), hex(&b[..8]))
    } else {
        hex(b)
    }
}

fn check_view_range(
    ctx: &mut Ctx,
    app: &App,
    raw: &Map,
    path: &[Vec<u8>],
    start: Option<&[u8]>,
    end: Option<&[u8]>,
    desc: bool,
) {
    let prefix = encode_path(path);
    let exp = model_range(&window(raw, &prefix), start, end, desc);
    let order = if desc { Order::Descending } else { Order::Ascending };
    let got = catch_unwind(AssertUnwindSafe(|| {
        with_view(app, path, |v| v.range(start, end, order).collect::<Vec<_>>())
    }));
    match got {
        Err(p) => ctx.fail(
            "C07.panic",
            format!("view prefix {} range({:?},{:?},desc={}) panicked: {}", short(&prefix), start.map(hex), end.map(hex), desc, panic_message(&p)),
        ),
        Ok(got) => {
            for r in &got {
                ctx.dig.write(&r.0);
                ctx.dig.write(&r.1);
            }
            let keys = catch_unwind(AssertUnwindSafe(|| with_view(app, path, |v| v.range_keys(start, end, order).collect::<Vec<_>>())));
            let vals = catch_unwind(AssertUnwindSafe(|| with_view(app, path, |v| v.range_values(start, end, order).collect::<Vec<_>>())));
            let exp_keys: Vec<Vec<u8>> = exp.iter().map(|r| r.0.clone()).collect();
            let exp_vals: Vec<Vec<u8>> = exp.iter().map(|r| r.1.clone()).collect();
            if keys.as_ref().ok() != Some(&exp_keys) || vals.as_ref().ok() != Some(&exp_vals) {
                ctx.fail(
                    "C07.range_mismatch",
                    format!("view prefix {} range_keys / range_values({:?},{:?},desc={}) disagree with the model window", short(&prefix), start.map(hex), end.map(hex), desc),
                );
            }
            if got == exp {
                let am = catch_unwind(AssertUnwindSafe(|| with_view(app, path, |v| crate::storage::adaptor_mismatch(v, start, end, order, &exp))));
                match am {
                    Err(p) => ctx.fail("C07.panic", format!("view prefix {} range consumed through iterator adaptors panicked: {}", short(&prefix), panic_message(&p))),
                    Ok(Some(d)) => ctx.fail("C07.range_mismatch", format!("view prefix {} range({:?},{:?},desc={}): {}", short(&prefix), start.map(hex), end.map(hex), desc, d)),
                    Ok(None) => {}
                }
            }
            if got != exp {
                ctx.fail(
                    "C07.range_mismatch",
                    format!(
                        "view prefix {} range({:?},{:?},desc={}): got {} expected {}",
                        short(&prefix),
                        start.map(hex),
                        end.map(hex),
                        desc,
                        fmt_recs(&got),
                        fmt_recs(&exp)
                    ),
                );
            }
        }
    }
}

impl Engine for Pfx07 {
    type Case = Case;
    fn name(&self) -> &'static str {
        "kvsim-prefix"
    }
    fn properties(&self) -> &'static [&'static str] {
        &["C07"]
    }
    fn budget(&self, cfg: &Cfg) -> Budget {
        match cfg.tier {
            Tier::Quick => Budget { runs: 300_000, max_secs: 25.0 },
            Tier::Thorough => Budget { runs: 8_000_000, max_secs: 360.0 },
        }
    }

    fn generate(&self, rng: &mut Rng, cfg: &Cfg) -> Case {
        let pool = seg_pool();
        let nviews = 2 + rng.usize(4);
        let mut views: Vec<Vec<Seg>> = vec![];
        for i in 0..nviews {
            let r = rng.below(100);
            let path: Vec<Seg> = if r < 6 {
                vec![] // the empty path
            } else if r < 8 {
                // a maximal segment, occasionally all 0xff
                let byte = if rng.chance(1, 2) { 0xff } else { *rng.pick(&[0u8, b'x', 0xfe]) };
                vec![Seg::Repeat { byte, len: 65535 }]
            } else if i > 0 && rng.chance(1, 5) {
                // the same bytes as an earlier view, cut into as many segments at other places ([fo, obar] / [foo, bar])
                let src = views[rng.usize(i)].clone();
                let all: Vec<u8> = src.iter().flat_map(|s| s.bytes()).collect();
                if src.len() >= 2 && all.len() >= src.len() && all.len() < 64 {
                    let mut cuts: Vec<usize> = (0..src.len() - 1).map(|_| rng.usize(all.len() + 1)).collect();
                    cuts.sort();
                    let mut p = vec![];
                    let mut from = 0;
                    for c in cuts {
                        p.push(Seg::Bytes(all[from..c].to_vec()));
                        from = c;
                    }
                    p.push(Seg::Bytes(all[from..].to_vec()));
                    p
                } else {
                    vec![Seg::Bytes(b"fo".to_vec()), Seg::Bytes(b"obar".to_vec())]
                }
            } else if i > 0 && rng.chance(1, 3) {
                // an extension of an earlier view
                let mut p = views[rng.usize(i)].clone();
                if p.iter().any(|s| matches!(s, Seg::Repeat { .. })) {
                    p = vec![];
                }
                p.push(rng.pick(&pool).clone());
                p
            } else {
                if rng.chance(1, 12) {
                    vec![Seg::Bytes(b"foo".to_vec()), Seg::Bytes(b"bar".to_vec())]
                } else {
                    let n = 1 + rng.usize(3);
                    (0..n).map(|_| rng.pick(&pool).clone()).collect()
                }
            };
            views.push(path);
        }
        let max_ops = match cfg.tier {
            Tier::Quick => 50,
            Tier::Thorough => 150,
        };
        let nops = 5 + rng.usize(max_ops);
        let mut w = [6u32, 3, 3, 8, 1, 1, 2, 1, 4, 3];
        for x in w.iter_mut() {
            if rng.chance(1, 6) {
                *x = 0;
            }
        }
        if w.iter().all(|x| *x == 0) {
            w[0] = 1;
            w[3] = 1;
        }
        let mut counter = 0u32;
        let mut val = || {
            counter += 1;
            format!("v{}", counter).into_bytes()
        };
        let mut ops = vec![];
        let mut written: Vec<(usize, Vec<u8>)> = vec![];
        for _ in 0..nops {
            let view = rng.usize(nviews);
            let op = match rng.weighted(&w) {
                0 => {
                    let k = small_key(rng);
                    written.push((view, k.clone()));
                    Op::Set { view, k, v: val() }
                }
                4 if !written.is_empty() && rng.chance(1, 2) => {
                    let (view, k) = rng.pick(&written).clone();
                    Op::RoSet { view, k }
                }
                5 if !written.is_empty() && rng.chance(1, 2) => {
                    let (view, k) = rng.pick(&written).clone();
                    Op::RoRemove { view, k }
                }
                1 => Op::Remove { view, k: small_key(rng) },
                2 => Op::Get { view, k: small_key(rng) },
                3 => {
                    let start = if rng.chance(1, 2) { None } else { Some(small_key(rng)) };
                    let end = if rng.chance(1, 2) { None } else { Some(small_key(rng)) };
                    Op::Range { view, start, end, desc: rng.chance(1, 2) }
                }
                4 => Op::RoSet { view, k: small_key(rng) },
                5 => Op::RoRemove { view, k: small_key(rng) },
                6 => {
                    let k = small_key(rng);
                    if rng.chance(1, 3) {
                        // the raw entry first, then the same bytes written through a view under the same key
                        ops.push(Op::RawSet { k: k.clone(), v: val() });
                        Op::SetAsRaw { view, k }
                    } else {
                        Op::RawSet { k, v: val() }
                    }
                }
                7 => Op::RawRemove { k: small_key(rng) },
                9 => {
                    // get / remove / get and similar on the same key and the same view instance
                    let k = small_key(rng);
                    let n = 2 + rng.usize(4);
                    let steps = (0..n).map(|_| (rng.below(3) as u8, if rng.chance(3, 4) { k.clone() } else { small_key(rng) }, val())).collect();
                    Op::Seq { view, steps }
                }
                _ => {
                    let plen = encode_path(&views[view].iter().map(|s| s.bytes()).collect::<Vec<_>>()).len();
                    let cut = if rng.chance(1, 2) { plen } else { rng.usize(plen + 1) };
                    Op::RawNear {
                        view,
                        cut,
                        bump: rng.chance(1, 2),
                        tail: if rng.chance(1, 2) { vec![] } else { small_key(rng) },
                        v: val(),
                    }
                }
            };
            ops.push(op);
        }
        Case { views, ops }
    }

    fn execute(&self, case: &Case) -> RunResult {
        let mut ctx = Ctx { stats: RunStats::default(), dig: Fnv::new(), viol: vec![] };
        let paths: Vec<Vec<Vec<u8>>> = case.views.iter().map(|p| p.iter().map(|s| s.bytes()).collect()).collect();
        if paths.is_empty() {
            return RunResult::default();
        }
        let prefixes: Vec<Vec<u8>> = paths.iter().map(|p| encode_path(p)).collect();
        let mut app = App::default();
        let mut raw: Map = dump(app.storage());
        let nv = paths.len();
        for p in &paths {
            if p.is_empty() {
                ctx.stats.probe("empty_path");
            }
            if p.iter().any(|s| s.last() == Some(&0xff)) {
                ctx.stats.probe("segment_ends_ff");
            }
            if p.iter().any(|s| s.len() == 65535) {
                ctx.stats.probe("max_segment");
            }
        }
        for i in 0..nv {
            for j in 0..nv {
                if i != j && prefixes[j].starts_with(&prefixes[i]) && prefixes[j].len() > prefixes[i].len() {
                    ctx.stats.probe("extension_pair");
                }
            }
        }
        for op in &case.ops {
            if !ctx.viol.is_empty() {
                break;
            }
            ctx.stats.steps += 1;
            match op {
                Op::Set { view, k, v } => {
                    let vi = view % nv;
                    let r = catch_unwind(AssertUnwindSafe(|| with_view_mut(&mut app, &paths[vi], |s| s.set(k, v))));
                    if let Err(p) = r {
                        ctx.fail("C07.panic", format!("set panicked: {}", panic_message(&p)));
                        break;
                    }
                    let mut rk = prefixes[vi].clone();
                    rk.extend_from_slice(k);
                    raw.insert(rk, v.clone());
                }
                Op::SetAsRaw { view, k } => {
                    let vi = view % nv;
                    if let Some(v) = raw.get(k).cloned() {
                        let r = catch_unwind(AssertUnwindSafe(|| with_view_mut(&mut app, &paths[vi], |s| s.set(k, &v))));
                        if let Err(p) = r {
                            ctx.fail("C07.panic", format!("set panicked: {}", panic_message(&p)));
                            break;
                        }
                        let mut rk = prefixes[vi].clone();
                        rk.extend_from_slice(k);
                        raw.insert(rk, v);
                        ctx.stats.probe("view_set_of_the_value_under_the_same_raw_key");
                    }
                }
                Op::Remove { view, k } => {
                    let vi = view % nv;
                    let r = catch_unwind(AssertUnwindSafe(|| with_view_mut(&mut app, &paths[vi], |s| s.remove(k))));
                    if let Err(p) = r {
                        ctx.fail("C07.panic", format!("remove panicked: {}", panic_message(&p)));
                        break;
                    }
                    let mut rk = prefixes[vi].clone();
                    rk.extend_from_slice(k);
                    raw.remove(&rk);
                }
                Op::Get { view, k } => {
                    let vi = view % nv;
                    let got = catch_unwind(AssertUnwindSafe(|| with_view(&app, &paths[vi], |s| s.get(k))));
                    let mut rk = prefixes[vi].clone();
                    rk.extend_from_slice(k);
                    let exp = raw.get(&rk).cloned();
                    match got {
                        Err(p) => ctx.fail("C07.panic", format!("get panicked: {}", panic_message(&p))),
                        Ok(got) => {
                            ctx.dig.write(got.as_deref().unwrap_or(b"\x00none"));
                            if got != exp {
                                ctx.fail("C07.get_mismatch", format!("view prefix {} get({}): got {:?} expected {:?}", short(&prefixes[vi]), hex(k), got.map(|x| hex(&x)), exp.map(|x| hex(&x))));
                            }
                        }
                    }
                    // also through the mutable accessor
                    let got2 = catch_unwind(AssertUnwindSafe(|| with_view_mut(&mut app, &paths[vi], |s| s.get(k))));
                    if let Ok(g) = got2 {
                        if g != raw.get(&rk).cloned() {
                            ctx.fail("C07.get_mismatch", format!("mutable view prefix {} get({}) disagrees with the base", short(&prefixes[vi]), hex(k)));
                        }
                    }
                }
                Op::Range { view, start, end, desc } => {
                    let vi = view % nv;
                    check_view_range(&mut ctx, &app, &raw, &paths[vi], start.as_deref(), end.as_deref(), *desc);
                    // the mutable accessor's range must agree too
                    if ctx.viol.is_empty() {
                        let order = if *desc { Order::Descending } else { Order::Ascending };
                        let exp = model_range(&window(&raw, &prefixes[vi]), start.as_deref(), end.as_deref(), *desc);
                        let got = catch_unwind(AssertUnwindSafe(|| {
                            with_view_mut(&mut app, &paths[vi], |s| s.range(start.as_deref(), end.as_deref(), order).collect::<Vec<_>>())
                        }));
                        match got {
                            Err(p) => ctx.fail("C07.panic", format!("mutable view range panicked: {}", panic_message(&p))),
                            Ok(g) => {
                                if g != exp {
                                    ctx.fail("C07.range_mismatch", format!("mutable view prefix {} range: got {} expected {}", short(&prefixes[vi]), fmt_recs(&g), fmt_recs(&exp)));
                                }
                            }
                        }
                    }
                }
                Op::Seq { view, steps } => {
                    let vi = view % nv;
                    let prefix = prefixes[vi].clone();
                    let mut local = raw.clone();
                    let r = catch_unwind(AssertUnwindSafe(|| {
                        with_view_mut(&mut app, &paths[vi], |s| {
                            let mut bad: Option<String> = None;
                            for (kind, k, v) in steps {
                                let mut rk = prefix.clone();
                                rk.extend_from_slice(k);
                                match kind % 3 {
                                    0 => {
                                        let got = s.get(k);
                                        if got != local.get(&rk).cloned() && bad.is_none() {
                                            bad = Some(format!("get({}) on a view instance that was used before returned {:?}, expected {:?}", hex(k), got.map(|x| hex(&x)), local.get(&rk).map(|x| hex(x))));
                                        }
                                    }
                                    1 => {
                                        if !v.is_empty() {
                                            s.set(k, v);
                                            local.insert(rk, v.clone());
                                        }
                                    }
                                    _ => {
                                        s.remove(k);
                                        local.remove(&rk);
                                    }
                                }
                            }
                            bad
                        })
                    }));
                    match r {
                        Err(p) => {
                            ctx.fail("C07.panic", format!("sequence on one view panicked: {}", panic_message(&p)));
                            break;
                        }
                        Ok(Some(d)) => {
                            ctx.fail("C07.get_mismatch", format!("view prefix {}: {}", short(&prefixes[vi]), d));
                            break;
                        }
                        Ok(None) => {}
                    }
                    raw = local;
                    ctx.stats.probe("same_view_sequence");
                }
                Op::RoSet { view, k } => {
                    let vi = view % nv;
                    let r = catch_unwind(AssertUnwindSafe(|| {
                        let refs: Vec<&[u8]> = paths[vi].iter().map(|s| s.as_slice()).collect();
                        let mut v = app.prefixed_multilevel_storage(&refs);
                        v.set(k, b"forbidden");
                    }));
                    ctx.stats.fault("readonly_write_attempt");
                    if r.is_ok() {
                        ctx.fail("C07.readonly_accepts_write", format!("read-only view accepted set({})", hex(k)));
                    }
                    // a write that would not change anything is a write all the same
                    let mut rk = prefixes[vi].clone();
                    rk.extend_from_slice(k);
                    if let Some(cur) = raw.get(&rk).cloned() {
                        let r = catch_unwind(AssertUnwindSafe(|| {
                            let refs: Vec<&[u8]> = paths[vi].iter().map(|s| s.as_slice()).collect();
                            let mut v = app.prefixed_multilevel_storage(&refs);
                            v.set(k, &cur);
                        }));
                        ctx.stats.probe("readonly_set_of_stored_value");
                        if r.is_ok() {
                            ctx.fail("C07.readonly_accepts_write", format!("read-only view accepted set({}) of the value already stored", hex(k)));
                        }
                    }
                    if paths[vi].len() == 1 {
                        let r = catch_unwind(AssertUnwindSafe(|| {
                            let mut v = app.prefixed_storage(&paths[vi][0]);
                            v.set(k, b"forbidden");
                        }));
                        if r.is_ok() {
                            ctx.fail("C07.readonly_accepts_write", format!("read-only view accepted set({})", hex(k)));
                        }
                    }
                }
                Op::RoRemove { view, k } => {
                    let vi = view % nv;
                    let r = catch_unwind(AssertUnwindSafe(|| {
                        let refs: Vec<&[u8]> = paths[vi].iter().map(|s| s.as_slice()).collect();
                        let mut v = app.prefixed_multilevel_storage(&refs);
                        v.remove(k);
                    }));
                    ctx.stats.fault("readonly_write_attempt");
                    if r.is_ok() {
                        ctx.fail("C07.readonly_accepts_write", format!("read-only view accepted remove({})", hex(k)));
                    }
                }
                Op::RawSet { k, v } => {
                    app.storage_mut().set(k, v);
                    raw.insert(k.clone(), v.clone());
                    ctx.stats.fault("raw_writer");
                }
                Op::RawRemove { k } => {
                    app.storage_mut().remove(k);
                    raw.remove(k);
                    ctx.stats.fault("raw_writer");
                }
                Op::RawNear { view, cut, bump, tail, v } => {
                    let vi = view % nv;
                    let p = &prefixes[vi];
                    let mut k = p[..(*cut).min(p.len())].to_vec();
                    if *bump {
                        // successor of the (cut) prefix: drop trailing 0xff, increment
                        while k.last() == Some(&0xff) {
                            k.pop();
                        }
                        if let Some(l) = k.last_mut() {
                            *l += 1;
                        }
                    }
                    k.extend_from_slice(tail);
                    if k.len() < p.len() {
                        ctx.stats.probe("raw_key_shorter_than_prefix");
                    }
                    if !k.starts_with(p) {
                        ctx.stats.probe("raw_key_adjacent_to_prefix");
                    }
                    app.storage_mut().set(&k, v);
                    raw.insert(k, v.clone());
                    ctx.stats.fault("raw_writer_near_prefix");
                }
            }
            if !ctx.viol.is_empty() {
                break;
            }
            // exactly the modelled raw keys changed, nothing else
            let now = dump(app.storage());
            if now != raw {
                let mut diffs = vec![];
                for (k, v) in &now {
                    if raw.get(k) != Some(v) {
                        diffs.push(format!("unexpected {}={}", short(k), hex(v)));
                    }
                }
                for (k, _) in &raw {
                    if !now.contains_key(k) {
                        diffs.push(format!("missing {}", short(k)));
                    }
                }
                let class = if matches!(op, Op::RoSet { .. } | Op::RoRemove { .. }) {
                    "C07.readonly_modified_base"
                } else {
                    "C07.base_mismatch"
                };
                ctx.fail(class, format!("after {:?}: base differs from the raw-key model: {}", short_op(op), diffs.join("; ")));
                break;
            }
            // after every write: every view equals its model window (full range, one order per step)
            if matches!(op, Op::Set { .. } | Op::SetAsRaw { .. } | Op::Remove { .. } | Op::Seq { .. } | Op::RawSet { .. } | Op::RawRemove { .. } | Op::RawNear { .. }) {
                let desc = ctx.stats.steps % 2 == 0;
                for vi in 0..nv {
                    if ctx.viol.is_empty() {
                        check_view_range(&mut ctx, &app, &raw, &paths[vi], None, None, desc);
                    }
                }
            }
        }
        let mut sig = Fnv::new();
        for (k, v) in &ctx.stats.probes {
            sig.write_str(k);
            sig.write_u64((*v).min(2));
        }
        for (k, v) in &ctx.stats.faults {
            sig.write_str(k);
            sig.write_u64((*v).min(2));
        }
        sig.write_u64(nv as u64);
        for p in &paths {
            sig.write_u64(p.len() as u64);
        }
        ctx.stats.signature = sig.finish();
        ctx.stats.nontrivial = !ctx.stats.faults.is_empty() && !ctx.stats.probes.is_empty();
        ctx.dig.write_u64(ctx.viol.len() as u64);
        ctx.stats.digest = ctx.dig.finish();
        RunResult { violations: ctx.viol, stats: ctx.stats }
    }

    fn shrink(&self, case: &Case) -> Vec<Case> {
        let mut out = vec![];
        for (s, e) in ddmin_drops(case.ops.len()) {
            let mut c = case.clone();
            c.ops = drop_range(&case.ops, s, e);
            out.push(c);
        }
        // drop a view (ops refer to views modulo the count, so re-index explicitly)
        if case.views.len() > 1 {
            for i in 0..case.views.len() {
                let mut c = case.clone();
                c.views.remove(i);
                let nv = case.views.len();
                c.ops = case
                    .ops
                    .iter()
                    .filter_map(|op| {
                        let remap = |v: usize| -> Option<usize> {
                            let v = v % nv;
                            if v == i {
                                None
                            } else if v > i {
                                Some(v - 1)
                            } else {
                                Some(v)
                            }
                        };
                        Some(match op.clone() {
                            Op::Set { view, k, v } => Op::Set { view: remap(view)?, k, v },
                            Op::Remove { view, k } => Op::Remove { view: remap(view)?, k },
                            Op::SetAsRaw { view, k } => Op::SetAsRaw { view: remap(view)?, k },
                            Op::Get { view, k } => Op::Get { view: remap(view)?, k },
                            Op::Range { view, start, end, desc } => Op::Range { view: remap(view)?, start, end, desc },
                            Op::Seq { view, steps } => Op::Seq { view: remap(view)?, steps },
                            Op::RoSet { view, k } => Op::RoSet { view: remap(view)?, k },
                            Op::RoRemove { view, k } => Op::RoRemove { view: remap(view)?, k },
                            Op::RawNear { view, cut, bump, tail, v } => Op::RawNear { view: remap(view)?, cut, bump, tail, v },
                            o => o,
                        })
                    })
                    .collect();
                out.push(c);
            }
        }
        // simplify segments
        for (i, path) in case.views.iter().enumerate() {
            for (j, seg) in path.iter().enumerate() {
                if let Seg::Repeat { byte, len } = seg {
                    if *len > 3 {
                        let mut c = case.clone();
                        c.views[i][j] = Seg::Repeat { byte: *byte, len: 3 };
                        out.push(c);
                    }
                }
            }
            if path.len() > 1 {
                for j in 0..path.len() {
                    let mut c = case.clone();
                    c.views[i].remove(j);
                    out.push(c);
                }
            }
        }
        // materialise RawNear as RawSet where possible happens implicitly; simplify ranges
        for (i, op) in case.ops.iter().enumerate() {
            if let Op::Range { view, start, end, desc } = op {
                if start.is_some() {
                    let mut c = case.clone();
                    c.ops[i] = Op::Range { view: *view, start: None, end: end.clone(), desc: *desc };
                    out.push(c);
                }
                if end.is_some() {
                    let mut c = case.clone();
                    c.ops[i] = Op::Range { view: *view, start: start.clone(), end: None, desc: *desc };
                    out.push(c);
                }
                if *desc {
                    let mut c = case.clone();
                    c.ops[i] = Op::Range { view: *view, start: start.clone(), end: end.clone(), desc: false };
                    out.push(c);
                }
            }
        }
        out
    }

    fn rule(&self) -> String {
        "one case = 2-5 namespace paths (adversarial segments: empty path, empty segment, segments ending in 0xff, segments spelling another path's encoding, extensions of one another, 65535-byte segments) + a seeded interleaving of view set/remove/get/range, read-only write attempts and a raw writer placing keys at/around the encoded prefixes, all on one App root store through App::prefixed_storage(_mut)/prefixed_multilevel_storage(_mut)/storage_mut; after every step the whole base equals the raw-key model and every view equals filter(starts_with(prefix)) then strip(prefix). Non-trivial = a raw-writer or read-only-write fault fired and an adversarial-shape probe fired. Distinct = hash of (probe kinds x min(count,2), fault kinds x min(count,2), path lengths).".to_string()
    }

    fn assumptions(&self, _cfg: &Cfg) -> Vec<String> {
        vec![
            "cosmwasm_std MockStorage is trusted as the root store".into(),
            "the expected encoding of a namespace path (2-byte big-endian length + bytes per segment) is taken from the statement".into(),
        ]
    }

    fn components(&self) -> Value {
        json!({"real": ["App::prefixed_storage(_mut)", "App::prefixed_multilevel_storage(_mut)", "PrefixedStorage / ReadonlyPrefixedStorage", "length_prefixed", "namespace_helpers", "MockStorage root"], "stub": [], "model": ["one raw-key BTreeMap; view = filter+strip"]})
    }

}

fn short_op(op: &Op) -> String {
    let s = format!("{:?}", op);
    if s.len() > 200 {
        format!("{}...", &s[..200])
    } else {
        s
    }
}
