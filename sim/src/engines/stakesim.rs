//! stakesim: discrete-event staking simulation (delegators x validators x clock x slashes)
//! against an exact model (C14 accounting and payouts, C15 reward bounds, C16 slashing).
//! The simulator owns the block clock: it jumps to maturities, one second before / after
//! them, by random spans, in one step or sliced.

use super::chainsim::{guarded, RealOut, SimApp, PREFIXES};
use crate::contract::make_code;
use crate::harness::*;
use crate::modules::*;
use crate::ops::{CodeKind, CoinSpec, MsgSpec, Node, Sub, Target};
use crate::prng::{Fnv, Rng};
use crate::resolve::*;
use crate::storage::SimStorage;
use crate::world::*;
use cosmwasm_std::testing::mock_env;
use cosmwasm_std::{coin, Addr, BlockInfo, CosmosMsg, Decimal, DistributionMsg, StakingMsg, Uint256, Validator};
use cw_multi_test::{
    BankKeeper, BasicAppBuilder, DistributionKeeper, Executor, StakeKeeper, StakingInfo, StakingSudo, SudoMsg,
};
use serde::{Deserialize, Serialize};
use serde_json::json;
use std::collections::{BTreeMap, VecDeque};

const YEAR: u128 = 60 * 60 * 24 * 365;
const DENOMS: [&str; 3] = ["TOKEN", "ustake", "atom"];
const NS: u64 = 1_000_000_000;
/// stakes are tracked in units of 10^-15 token (<= 5 slashes per validator with <= 3 decimals each)
const XS: u128 = 1_000_000_000_000_000;
/// rates (apr x (1 - commission)) in units of 10^-8
const RS: u128 = 100_000_000;
pub const MAX_SLASHES_PER_VALIDATOR: u32 = 5;

#[derive(Clone, Debug, Serialize, Deserialize, PartialEq)]
pub enum SAmt {
    Abs(u64),
    /// everything shown for the pair
    AllShown,
    ShownPlus(u64),
    Half,
    Zero,
}

#[derive(Clone, Debug, Serialize, Deserialize, PartialEq)]
pub enum Jump {
    Secs(u64),
    /// to the next pending maturity exactly
    ToMaturity,
    ToMaturityMinus1,
    ToMaturityPlus1,
    /// past the k-th pending maturity
    PastSeveral(u32),
    Zero,
    /// sub-second moves: block time has nanosecond resolution
    Nanos(u64),
    ToMaturityMinusNanos(u32),
    ToMaturityPlusNanos(u32),
}

#[derive(Clone, Debug, Serialize, Deserialize, PartialEq)]
pub enum StakeMsg {
    Delegate { v: u32, amt: SAmt, foreign: bool },
    Undelegate { v: u32, amt: SAmt, foreign: bool },
    Redelegate { src: u32, dst: u32, amt: SAmt, #[serde(default)] foreign: bool },
}

#[derive(Clone, Debug, Serialize, Deserialize, PartialEq)]
pub enum SOp {
    Msg { d: u32, m: StakeMsg },
    /// execute_multi of several staking messages of one delegator (all-or-nothing)
    Batch { d: u32, ms: Vec<StakeMsg> },
    Withdraw { d: u32, v: u32 },
    SetWithdraw { d: u32, to: u32 },
    /// one all-or-nothing batch: withdraw-address change, a small delegation, then a delegation of more
    /// than the delegator owns: must fail as a whole and leave no trace (neither in storage nor anywhere else)
    Poisoned { d: u32, to: u32, v: u32 },
    /// the administration function add_validator called again for a validator that already exists: must be
    /// refused and change nothing
    DupValidator { v: u32 },
    /// slash by p/1000 (p > 1000 is invalid)
    /// fraction in thousandths; values >= 1_000_000 mean 1 + (p_milli - 1_000_000) * 10^-18
    Slash { v: u32, p_milli: u32 },
    Advance { jump: Jump, set: bool, slices: u32 },
}

#[derive(Clone, Debug, Serialize, Deserialize)]
pub struct Case {
    pub prefix: u8,
    pub n_delegators: u32,
    /// delegator 0 is a contract: its staking messages arrive as sub-messages
    pub contract_delegator: bool,
    pub n_validators: u32,
    /// commission per validator in 1/10000
    pub commissions: Vec<u32>,
    /// max_commission per validator in 1/10000 (may be below the commission: the simulator accepts that)
    #[serde(default)]
    pub max_commissions: Vec<u32>,
    /// annual rate in 1/10000
    pub apr: u32,
    pub unbonding_secs: u64,
    pub init_balance: u64,
    /// bonded denomination: 0 the default "TOKEN", otherwise a configured one
    #[serde(default)]
    pub bonded: u8,
    /// a second application with other staking parameters is built right after this one and stays alive
    /// during the run (two chains in one thread, the other configured last)
    #[serde(default)]
    pub decoy: bool,
    /// validators have plain, mixed-case names (three of them case variants of one name)
    #[serde(default)]
    pub plain_validators: bool,
    /// the foreign denomination differs from the bonded one only in the case of its letters
    #[serde(default)]
    pub lookalike_foreign: bool,
    /// the chain runs with the documented default staking parameters (TOKEN, 60 s, 10 %) and `setup` is
    /// never called
    #[serde(default)]
    pub default_params: bool,
    /// the validators are registered before the staking parameters are configured
    #[serde(default)]
    pub validators_first: bool,
    pub ops: Vec<SOp>,
}

#[derive(Clone, Debug, Default)]
struct Pair {
    /// shown delegation (whole tokens), as the model expects it
    shown: u128,
    /// exact stake if nothing is ever dropped, in 10^-15 token
    x_hi: u128,
    /// stake if every sub-token remainder is dropped wherever the statements allow, in 10^-15 token
    x_lo: u128,
    /// integral of x_hi * rate * dt over the current H-period (numerator over XS*RS*YEAR)
    i_hi: Uint256,
    /// withdrawn in the current H-period
    w_hi: u128,
    /// integral of x_lo * rate * dt over the current L-period
    i_lo: Uint256,
    w_lo: u128,
    n_lo: u128,
    in_l_period: bool,
}

#[derive(Clone, Debug)]
struct Pending {
    payout_at: u64, // nanoseconds
    d: usize,
    v: usize,
    amount: u128,
}

struct SModel {
    balances: Vec<u128>, // delegators then extra accounts
    pairs: BTreeMap<(usize, usize), Pair>,
    queue: VecDeque<Pending>,
    withdraw_to: Vec<usize>,
    slashes: Vec<u32>,
    now: u64, // nanoseconds of block time
    /// time up to which the integrals have been accrued (the reward clock counts whole seconds of block time)
    accrued_to: u64,
}

pub struct StakeSim;

const P14: &str = "C14";
const P15: &str = "C15";
const P16: &str = "C16";

pub struct Run {
    pub app: SimApp,
    sut_panic: std::cell::RefCell<Option<String>>,
    denom: String,
    foreign_denom: String,
    addrs: Vec<String>,      // delegators + extra accounts
    validators: Vec<String>, // real validators
    contract0: bool,
    rates: Vec<u128>, // apr*(1-c) in 1e-8 per validator
    m: SModel,
    stats: RunStats,
    pub dig: Fnv,
    pub viol: Vec<Violation>,
    unbonding: u64,
    nid: u32,
}

fn u256(x: u128) -> Uint256 {
    Uint256::from(x)
}

impl Run {
    fn v(&mut self, prop: &str, class: &str, detail: String) {
        if !self.viol.iter().any(|x| x.property == prop) {
            self.viol.push(Violation::new(prop, &format!("{}.{}", prop, class), detail));
        }
    }

    fn vall(&mut self, class: &str, detail: String) {
        for p in [P14, P15, P16] {
            self.v(p, class, detail.clone());
        }
    }

    fn validator(&self, v: u32) -> String {
        match self.validators.get(v as usize) {
            Some(a) => a.clone(),
            None => format!("ghostvaloper{}", v),
        }
    }

    /// The checker's own questions to the application: a panic in there is the simulator's; it is noted and
    /// reported as a violation at the end of the step.
    fn ask<T>(&self, default: T, f: impl FnOnce() -> T) -> T {
        match std::panic::catch_unwind(std::panic::AssertUnwindSafe(f)) {
            Ok(x) => x,
            Err(p) => {
                let mut slot = self.sut_panic.borrow_mut();
                if slot.is_none() {
                    *slot = Some(crate::harness::panic_message(&p));
                }
                default
            }
        }
    }

    fn balance(&self, addr: &str) -> u128 {
        self.ask(u128::MAX, || self.app.wrap().query_balance(addr.to_string(), self.denom.clone()).map(|c| c.amount.u128()).unwrap_or(u128::MAX))
    }

    fn supply(&self) -> u128 {
        self.ask(u128::MAX, || self.app.wrap().query_supply(self.denom.clone()).map(|c| c.amount.u128()).unwrap_or(u128::MAX))
    }

    /// (shown delegation, pending reward shown) of a pair with one delegation query; the keeper's own
    /// accessor supplies the pending reward when the query hides a sub-token delegation.
    fn view(&self, d: usize, v: usize) -> Result<(u128, u128), String> {
        self.ask(Err("the query panicked".to_string()), || self.view_inner(d, v))
    }

    fn view_inner(&self, d: usize, v: usize) -> Result<(u128, u128), String> {
        match self.app.wrap().query_delegation(self.addrs[d].clone(), self.validators[v].clone()) {
            Ok(Some(fd)) => {
                let pending = fd.accumulated_rewards.iter().filter(|c| c.denom == self.denom).map(|c| c.amount.u128()).sum();
                Ok((fd.amount.amount.u128(), pending))
            }
            Ok(None) => {
                let block = self.app.block_info();
                let a = Addr::unchecked(self.addrs[d].clone());
                let val = self.validators[v].clone();
                let pending = self
                    .app
                    .read_module(|router, _api, storage| router.staking.inner.get_rewards(storage, &block, &a, &val))
                    .ok()
                    .flatten()
                    .map(|c| c.amount.u128())
                    .unwrap_or(0);
                Ok((0, pending))
            }
            Err(e) => Err(e.to_string()),
        }
    }

    fn shown(&self, d: usize, v: usize) -> Result<u128, String> {
        self.view(d, v).map(|x| x.0)
    }

    fn pending(&self, d: usize, v: usize) -> u128 {
        self.view(d, v).map(|x| x.1).unwrap_or(0)
    }

    fn pair(&mut self, d: usize, v: usize) -> &mut Pair {
        self.m.pairs.entry((d, v)).or_default()
    }

    /// accrue the ideal integrals up to the model's current time
    fn accrue(&mut self) {
        let dt = (self.m.now / NS - self.m.accrued_to / NS) as u128;
        self.m.accrued_to = self.m.now;
        if dt == 0 {
            return;
        }
        for ((_, v), p) in self.m.pairs.iter_mut() {
            let rate = self.rates[*v];
            p.i_hi += u256(p.x_hi) * u256(rate) * u256(dt);
            if p.in_l_period {
                p.i_lo += u256(p.x_lo) * u256(rate) * u256(dt);
            }
        }
    }

    fn resolve_amt(&self, d: usize, v: u32, a: &SAmt) -> u128 {
        let shown = if (v as usize) < self.validators.len() { self.m.pairs.get(&(d, v as usize)).map(|p| p.shown).unwrap_or(0) } else { 0 };
        match a {
            SAmt::Abs(n) => *n as u128,
            SAmt::AllShown => shown,
            SAmt::ShownPlus(n) => shown + *n as u128,
            SAmt::Half => shown / 2,
            SAmt::Zero => 0,
        }
    }

    fn to_cosmos(&self, d: usize, m: &StakeMsg) -> (CosmosMsg<SimMsg>, MsgSpec) {
        let den = |foreign: bool| if foreign { self.foreign_denom.clone() } else { self.denom.clone() };
        match m {
            StakeMsg::Delegate { v, amt, foreign } => {
                let a = self.resolve_amt(d, *v, amt);
                (
                    StakingMsg::Delegate { validator: self.validator(*v), amount: coin(a, den(*foreign)) }.into(),
                    MsgSpec::Delegate { val: *v, coin: CoinSpec { denom: if *foreign { 1 } else { 0 }, amt: crate::ops::Amt::Abs(a as u64) } },
                )
            }
            StakeMsg::Undelegate { v, amt, foreign } => {
                let a = self.resolve_amt(d, *v, amt);
                (
                    StakingMsg::Undelegate { validator: self.validator(*v), amount: coin(a, den(*foreign)) }.into(),
                    MsgSpec::Undelegate { val: *v, coin: CoinSpec { denom: if *foreign { 1 } else { 0 }, amt: crate::ops::Amt::Abs(a as u64) } },
                )
            }
            StakeMsg::Redelegate { src, dst, amt, foreign } => {
                let a = self.resolve_amt(d, *src, amt);
                (
                    StakingMsg::Redelegate { src_validator: self.validator(*src), dst_validator: self.validator(*dst), amount: coin(a, den(*foreign)) }.into(),
                    MsgSpec::Redelegate { src: *src, dst: *dst, coin: CoinSpec { denom: if *foreign { 1 } else { 0 }, amt: crate::ops::Amt::Abs(a as u64) } },
                )
            }
        }
    }

    /// Model validity and effect of one staking message on a scratch copy of (balances, shown).
    fn model_apply(&self, d: usize, m: &StakeMsg, bal: &mut u128, shown: &mut BTreeMap<usize, u128>) -> bool {
        let nv = self.validators.len();
        let get = |s: &BTreeMap<usize, u128>, v: usize| s.get(&v).copied().unwrap_or(0);
        match m {
            StakeMsg::Delegate { v, amt, foreign } => {
                let a = self.resolve_amt(d, *v, amt);
                // resolve relative amounts against the scratch state (batches)
                let a = match amt {
                    SAmt::AllShown => get(shown, *v as usize),
                    SAmt::ShownPlus(n) => get(shown, *v as usize) + *n as u128,
                    SAmt::Half => get(shown, *v as usize) / 2,
                    _ => a,
                };
                if *foreign || a == 0 || (*v as usize) >= nv || a > *bal {
                    return false;
                }
                *bal -= a;
                *shown.entry(*v as usize).or_insert(0) += a;
                true
            }
            StakeMsg::Undelegate { v, amt, foreign } => {
                let a = match amt {
                    SAmt::AllShown => get(shown, *v as usize),
                    SAmt::ShownPlus(n) => get(shown, *v as usize) + *n as u128,
                    SAmt::Half => get(shown, *v as usize) / 2,
                    _ => self.resolve_amt(d, *v, amt),
                };
                if *foreign || a == 0 || (*v as usize) >= nv || a > get(shown, *v as usize) {
                    return false;
                }
                *shown.entry(*v as usize).or_insert(0) -= a;
                true
            }
            StakeMsg::Redelegate { src, dst, amt, foreign } => {
                if *foreign {
                    return false;
                }
                let a = match amt {
                    SAmt::AllShown => get(shown, *src as usize),
                    SAmt::ShownPlus(n) => get(shown, *src as usize) + *n as u128,
                    SAmt::Half => get(shown, *src as usize) / 2,
                    _ => self.resolve_amt(d, *src, amt),
                };
                if a == 0 || (*src as usize) >= nv || (*dst as usize) >= nv || a > get(shown, *src as usize) {
                    return false;
                }
                *shown.entry(*src as usize).or_insert(0) -= a;
                *shown.entry(*dst as usize).or_insert(0) += a;
                true
            }
        }
    }

    /// Applies a (valid) message to the real model state.
    fn model_commit(&mut self, d: usize, m: &StakeMsg, amounts: u128) {
        let a = amounts;
        let unb = self.unbonding;
        let now = self.m.now;
        match m {
            StakeMsg::Delegate { v, .. } => {
                self.m.balances[d] -= a;
                let p = self.pair(d, *v as usize);
                p.shown += a;
                p.x_hi += a * XS;
                p.x_lo += a * XS;
                if !p.in_l_period {
                    p.in_l_period = true;
                    p.i_lo = Uint256::zero();
                    p.w_lo = 0;
                    p.n_lo = 0;
                    // what may have been carried below one token does not count for the lower bound
                    p.x_lo = a * XS;
                }
            }
            StakeMsg::Undelegate { v, .. } => {
                let p = self.pair(d, *v as usize);
                p.shown -= a;
                p.x_hi = p.x_hi.saturating_sub(a * XS);
                p.x_lo = p.x_lo.saturating_sub(a * XS);
                if p.shown == 0 {
                    p.in_l_period = false;
                    p.x_lo = 0;
                }
                if p.x_hi == 0 {
                    p.i_hi = Uint256::zero();
                    p.w_hi = 0;
                }
                self.m.queue.push_back(Pending { payout_at: now + unb * NS, d, v: *v as usize, amount: a });
                if self.m.queue.len() >= 8 {
                    self.stats.probe("unbonding_queue_ge_8");
                }
                if self.m.queue.len() >= 20 {
                    self.stats.probe("unbonding_queue_ge_20");
                }
            }
            StakeMsg::Redelegate { src, dst, .. } => {
                let p = self.pair(d, *src as usize);
                p.shown -= a;
                p.x_hi = p.x_hi.saturating_sub(a * XS);
                p.x_lo = p.x_lo.saturating_sub(a * XS);
                if p.shown == 0 {
                    p.in_l_period = false;
                    p.x_lo = 0;
                }
                if p.x_hi == 0 {
                    p.i_hi = Uint256::zero();
                    p.w_hi = 0;
                }
                let q = self.pair(d, *dst as usize);
                q.shown += a;
                q.x_hi += a * XS;
                q.x_lo += a * XS;
                if !q.in_l_period {
                    q.in_l_period = true;
                    q.i_lo = Uint256::zero();
                    q.w_lo = 0;
                    q.n_lo = 0;
                    q.x_lo = a * XS;
                }
            }
        }
    }

    fn amount_of(&self, _d: usize, m: &StakeMsg, shown: &BTreeMap<usize, u128>) -> u128 {
        let get = |v: u32| shown.get(&(v as usize)).copied().unwrap_or(0);
        let (v, amt) = match m {
            StakeMsg::Delegate { v, amt, .. } | StakeMsg::Undelegate { v, amt, .. } => (*v, amt),
            StakeMsg::Redelegate { src, amt, .. } => (*src, amt),
        };
        match amt {
            SAmt::Abs(n) => *n as u128,
            SAmt::AllShown => get(v),
            SAmt::ShownPlus(n) => get(v) + *n as u128,
            SAmt::Half => get(v) / 2,
            SAmt::Zero => 0,
        }
    }

    fn shown_map(&self, d: usize) -> BTreeMap<usize, u128> {
        self.m.pairs.iter().filter(|((dd, _), _)| *dd == d).map(|((_, v), p)| (*v, p.shown)).collect()
    }

    /// Sends messages of delegator d: directly, or (contract delegator) as sub-messages.
    fn send(&mut self, d: usize, msgs: Vec<(CosmosMsg<SimMsg>, MsgSpec)>) -> RealOut<()> {
        let app = &mut self.app;
        if d == 0 && self.contract0 {
            // the contract emits the staking messages as sub-messages (reply_on Never): any failure propagates
            self.nid += 1;
            let node = Node {
                nid: self.nid,
                subs: msgs.iter().map(|(_, spec)| Sub { msg: spec.clone(), id: 1, reply_on: 0, payload: vec![], reply: None }).collect(),
                ..Default::default()
            };
            let owner = Addr::unchecked(self.addrs[1].clone());
            let c = Addr::unchecked(self.addrs[0].clone());
            let dig = &mut self.dig;
            guarded(|| {
                app.execute_contract(owner, c, &node, &[]).map(|r| {
                    hash_events(dig, &r.events);
                })
            })
        } else {
            let sender = Addr::unchecked(self.addrs[d].clone());
            let ms: Vec<CosmosMsg<SimMsg>> = msgs.into_iter().map(|(m, _)| m).collect();
            let dig = &mut self.dig;
            guarded(|| {
                app.execute_multi(sender, ms).map(|rs| {
                    for r in rs {
                        hash_events(dig, &r.events);
                    }
                })
            })
        }
    }

    /// Full comparison of the observable staking state with the model (after every step).
    /// The checks query the application (balances, delegations, rewards): a panic in there is the
    /// simulator's, and a violation of "no valid sequence makes the simulator panic".
    fn check_state(&mut self, what: &str) {
        let r = std::panic::catch_unwind(std::panic::AssertUnwindSafe(|| self.check_state_inner(what)));
        if let Err(p) = r {
            self.v(P14, "panic", format!("{}: a query through App panicked afterwards: {}", what, crate::harness::panic_message(&p)));
        }
    }

    fn check_state_inner(&mut self, what: &str) {
        let nd = self.m.balances.len();
        for a in 0..nd {
            let got = self.balance(&self.addrs[a].clone());
            if got != self.m.balances[a] {
                let d = format!("{}: balance of account {} is {} but the model accounts for {}", what, a, got, self.m.balances[a]);
                self.v(P14, "balance", d.clone());
                self.v(P16, "balance", d);
                return;
            }
        }
        let nv = self.validators.len();
        let mut views: Vec<Vec<(u128, u128)>> = vec![];
        for d in 0..nd {
            let mut row = vec![];
            for v in 0..nv {
                let exp = self.m.pairs.get(&(d, v)).map(|p| p.shown).unwrap_or(0);
                match self.view(d, v) {
                    Ok((got, pending)) => {
                        if got != exp {
                            let det = format!("{}: delegation of {} to validator {} shows {} but the model expects {}", what, d, v, got, exp);
                            self.v(P14, "delegation", det);
                            return;
                        }
                        row.push((got, pending));
                    }
                    Err(e) => {
                        self.v(P14, "delegation_query_failed", format!("{}: delegation query failed: {}", what, e));
                        return;
                    }
                }
            }
            views.push(row);
            // the all-delegations query agrees with the single ones (zero entries ignored)
            if let Ok(all) = self.app.wrap().query_all_delegations(self.addrs[d].clone()) {
                for del in all {
                    let vi = self.validators.iter().position(|x| *x == del.validator);
                    let exp = vi.and_then(|v| self.m.pairs.get(&(d, v))).map(|p| p.shown).unwrap_or(0);
                    if del.amount.amount.u128() != exp {
                        self.v(P14, "delegation", format!("{}: AllDelegations of {} lists {} for {} but the single query / model says {}", what, d, del.amount.amount, del.validator, exp));
                        return;
                    }
                }
            }
        }
        // C15 bounds for every pair
        let eps_hi = u256(100_000_000_000_000u128) * u256(YEAR); // 1e-9 token in units of 1/(XS*RS*YEAR)
        let unit = u256(XS) * u256(RS) * u256(YEAR);
        for d in 0..nd {
            for v in 0..nv {
                let p = match self.m.pairs.get(&(d, v)) {
                    Some(p) => p.clone(),
                    None => continue,
                };
                let pending = views[d][v].1;
                // never over-paid
                let paid_hi = u256(p.w_hi + pending) * unit;
                if paid_hi > p.i_hi + eps_hi {
                    self.v(
                        P15,
                        "overpaid",
                        format!("{}: pair ({},{}) withdrew {} + shows pending {} but the ideal accrual is only {} (x 1e-23/year-seconds)", what, d, v, p.w_hi, pending, p.i_hi),
                    );
                    return;
                }
                // never short by a token or more per withdrawal plus one (while the delegation is shown)
                if p.in_l_period && p.shown > 0 {
                    let have = u256(p.w_lo + pending + p.n_lo + 1) * unit + eps_hi;
                    if p.i_lo >= have {
                        self.v(
                            P15,
                            "underpaid",
                            format!("{}: pair ({},{}) withdrew {} in {} withdrawals + shows pending {} but at least {} (x 1e-23/year-seconds) accrued", what, d, v, p.w_lo, p.n_lo, pending, p.i_lo),
                        );
                        return;
                    }
                }
            }
        }
    }

    fn op_msgs(&mut self, d: usize, ms: &[StakeMsg], batch: bool) {
        self.accrue();
        let what = format!("{} by delegator {}", if batch { "batch" } else { "message" }, d);
        // model: sequentially on scratch state; all-or-nothing
        let mut bal = self.m.balances[d];
        let mut shown = self.shown_map(d);
        let mut amounts = vec![];
        let mut valid = true;
        for m in ms {
            amounts.push(self.amount_of(d, m, &shown));
            if valid && !self.model_apply(d, m, &mut bal, &mut shown) {
                valid = false;
            }
        }
        // redelegating zero is not constrained by the statements: such an operation is left out
        if ms.iter().zip(amounts.iter()).any(|(m, a)| matches!(m, StakeMsg::Redelegate { .. }) && *a == 0) {
            self.stats.probe("redelegate_zero_skipped");
            return;
        }
        // real messages carry the amounts resolved against the evolving scratch state
        let mut real_msgs = vec![];
        {
            let mut sh = self.shown_map(d);
            let mut b = self.m.balances[d];
            for m in ms {
                let a = self.amount_of(d, m, &sh);
                let fixed = match m {
                    StakeMsg::Delegate { v, foreign, .. } => StakeMsg::Delegate { v: *v, amt: SAmt::Abs(a as u64), foreign: *foreign },
                    StakeMsg::Undelegate { v, foreign, .. } => StakeMsg::Undelegate { v: *v, amt: SAmt::Abs(a as u64), foreign: *foreign },
                    StakeMsg::Redelegate { src, dst, foreign, .. } => StakeMsg::Redelegate { src: *src, dst: *dst, amt: SAmt::Abs(a as u64), foreign: *foreign },
                };
                real_msgs.push(self.to_cosmos(d, &fixed));
                let _ = self.model_apply(d, m, &mut b, &mut sh);
            }
        }
        let before = self.app.storage().snapshot();
        let supply_before = self.supply();
        let real = self.send(d, real_msgs);
        self.stats.steps += 1;
        match (real, valid) {
            (RealOut::Panic(p), _) => self.vall("panic", format!("{}: the simulator panicked: {}", what, p)),
            (RealOut::Ok(()), true) => {
                for (m, a) in ms.iter().zip(amounts.iter()) {
                    self.model_commit(d, m, *a);
                }
                if self.supply() != supply_before {
                    self.v(P14, "supply", format!("{}: total supply changed from {} to {} (staked tokens must sit in the pool)", what, supply_before, self.supply()));
                }
                self.check_state(&what);
            }
            (RealOut::Err(_), false) => {
                self.stats.fault("invalid_staking_op");
                if self.app.storage().snapshot() != before {
                    self.v(P14, "rejected_with_effect", format!("{}: rejected but the chain state changed", what));
                }
            }
            (RealOut::Ok(()), false) => {
                self.v(P14, "invalid_accepted", format!("{}: accepted although it is invalid (zero / foreign denomination / unknown validator / more than delegated / more than owned): {:?}", what, ms));
            }
            (RealOut::Err(e), true) => {
                let d2 = format!("{}: a valid staking operation was rejected: {} ({:?})", what, e, ms);
                self.v(P14, "valid_rejected", d2.clone());
                self.v(P16, "valid_rejected_after_slash", d2);
            }
        }
    }

    fn op_withdraw(&mut self, d: usize, v: u32) {
        self.accrue();
        let what = format!("withdraw reward of delegator {} from validator {}", d, v);
        let nv = self.validators.len();
        let nd = self.m.balances.len();
        let vi = v as usize;
        let pending_before: Vec<Vec<u128>> = (0..nd).map(|dd| (0..nv).map(|vv| self.pending(dd, vv)).collect()).collect();
        let bal_before: Vec<u128> = (0..nd).map(|a| self.balance(&self.addrs[a].clone())).collect();
        let supply_before = self.supply();
        let before = self.app.storage().snapshot();
        let msg: CosmosMsg<SimMsg> = DistributionMsg::WithdrawDelegatorReward { validator: self.validator(v) }.into();
        let real = self.send(d, vec![(msg, MsgSpec::Withdraw { val: v })]);
        self.stats.steps += 1;
        match real {
            RealOut::Panic(p) => self.vall("panic", format!("{}: the simulator panicked: {}", what, p)),
            RealOut::Err(_) => {
                self.stats.fault("withdraw_rejected");
                if self.app.storage().snapshot() != before {
                    self.v(P15, "rejected_with_effect", format!("{}: rejected but the chain state changed", what));
                }
            }
            RealOut::Ok(()) => {
                if vi >= nv {
                    self.v(P15, "invalid_accepted", format!("{}: accepted for an unknown validator", what));
                    return;
                }
                let p = pending_before[d][vi];
                let to = self.m.withdraw_to[d];
                self.stats.probe("withdraw_ok");
                if to != d {
                    self.stats.probe("withdraw_to_other_address");
                }
                for a in 0..nd {
                    let got = self.balance(&self.addrs[a].clone());
                    let exp = bal_before[a] + if a == to { p } else { 0 };
                    if got != exp {
                        self.v(P15, "withdraw_payout", format!("{}: pending shown was {}, withdraw address is account {}; balance of account {} went {} -> {} (expected {})", what, p, to, a, bal_before[a], got, exp));
                        return;
                    }
                }
                if self.supply() != supply_before + p {
                    self.v(P15, "withdraw_mint", format!("{}: supply went {} -> {} but exactly {} had to be minted", what, supply_before, self.supply(), p));
                    return;
                }
                for dd in 0..nd {
                    for vv in 0..nv {
                        let now = self.pending(dd, vv);
                        let exp = if dd == d && vv == vi { 0 } else { pending_before[dd][vv] };
                        if now != exp {
                            self.v(P15, "withdraw_side_effect", format!("{}: pending reward of pair ({},{}) went {} -> {} (expected {})", what, dd, vv, pending_before[dd][vv], now, exp));
                            return;
                        }
                    }
                }
                self.m.balances[to] += p;
                let pr = self.pair(d, vi);
                pr.w_hi += p;
                if pr.in_l_period {
                    pr.w_lo += p;
                    pr.n_lo += 1;
                }
                self.check_state(&what);
            }
        }
    }

    fn op_set_withdraw(&mut self, d: usize, to: u32) {
        let n = self.m.balances.len();
        let to = to as usize % n;
        let msg: CosmosMsg<SimMsg> = DistributionMsg::SetWithdrawAddress { address: self.addrs[to].clone() }.into();
        let real = self.send(d, vec![(msg, MsgSpec::SetWithdraw { to: if to == 0 && self.contract0 { Target::Contract(0) } else { Target::Account(to as u32) } })]);
        self.stats.steps += 1;
        match real {
            RealOut::Panic(p) => self.vall("panic", format!("set withdraw address panicked: {}", p)),
            RealOut::Ok(()) => {
                self.m.withdraw_to[d] = to;
                self.check_state("set withdraw address");
            }
            RealOut::Err(e) => self.v(P15, "set_withdraw_rejected", format!("set withdraw address to a valid address was rejected: {}", e)),
        }
    }

    fn op_poisoned(&mut self, d: usize, to: u32, v: u32) {
        self.accrue();
        let n = self.m.balances.len();
        let to = to as usize % n;
        let nv = self.validators.len();
        let vi = v as usize % nv;
        let bal = self.m.balances[d];
        let before = self.app.storage().snapshot();
        let small = bal.min(1);
        let mut msgs: Vec<(CosmosMsg<SimMsg>, MsgSpec)> = vec![(
            DistributionMsg::SetWithdrawAddress { address: self.addrs[to].clone() }.into(),
            MsgSpec::SetWithdraw { to: if to == 0 && self.contract0 { Target::Contract(0) } else { Target::Account(to as u32) } },
        )];
        if small > 0 {
            msgs.push((
                StakingMsg::Delegate { validator: self.validator(vi as u32), amount: coin(small, self.denom.clone()) }.into(),
                MsgSpec::Delegate { val: vi as u32, coin: CoinSpec { denom: 0, amt: crate::ops::Amt::Abs(small as u64) } },
            ));
        }
        msgs.push((
            StakingMsg::Delegate { validator: self.validator(vi as u32), amount: coin(bal + 1, self.denom.clone()) }.into(),
            MsgSpec::Delegate { val: vi as u32, coin: CoinSpec { denom: 0, amt: crate::ops::Amt::Abs((bal + 1) as u64) } },
        ));
        let real = self.send(d, msgs);
        self.stats.steps += 1;
        self.stats.fault("poisoned_batch");
        let what = "batch of withdraw-address change, delegation and an unaffordable delegation";
        match real {
            RealOut::Panic(p) => self.vall("panic", format!("{}: the simulator panicked: {}", what, p)),
            RealOut::Ok(()) => self.v(P14, "accepted_but_invalid", format!("{}: accepted although the last delegation exceeds the balance", what)),
            RealOut::Err(_) => {
                if self.app.storage().snapshot() != before {
                    self.v(P14, "rejected_with_effect", format!("{}: rejected but the chain state changed", what));
                }
                self.check_state(what);
            }
        }
    }

    fn op_dup_validator(&mut self, v: u32) {
        self.accrue();
        let vi = v as usize % self.validators.len();
        let addr = self.validators[vi].clone();
        let before = self.app.storage().snapshot();
        let block = self.app.block_info();
        let app = &mut self.app;
        let real: RealOut<()> = guarded(|| {
            app.init_modules(|router, api, storage| {
                router.staking.inner.add_validator(api, storage, &block, Validator::create(addr, Decimal::percent(7), Decimal::one(), Decimal::one()))
            })
        });
        self.stats.steps += 1;
        self.stats.fault("duplicate_validator_registration");
        let what = "registering an existing validator again";
        match real {
            RealOut::Panic(p) => self.vall("panic", format!("{}: the simulator panicked: {}", what, p)),
            RealOut::Ok(()) => self.v(P14, "accepted_but_invalid", format!("{}: accepted", what)),
            RealOut::Err(_) => {
                if self.app.storage().snapshot() != before {
                    self.vall("rejected_with_effect", format!("{}: refused, but the chain state changed (the validator's bookkeeping)", what));
                }
                self.check_state(what);
            }
        }
    }

    fn op_slash(&mut self, v: u32, p_milli: u32) {
        self.accrue();
        let what = format!("slash validator {} by {}/1000", v, p_milli);
        let nv = self.validators.len();
        let nd = self.m.balances.len();
        let vi = v as usize;
        let valid = vi < nv && p_milli <= 1000;
        if valid && self.m.slashes[vi] >= MAX_SLASHES_PER_VALIDATOR {
            return; // keeps every stake an exact multiple of 10^-15 token
        }
        let shown_before: Vec<Vec<u128>> = (0..nd).map(|d| (0..nv).map(|vv| self.shown(d, vv).unwrap_or(u128::MAX)).collect()).collect();
        let pending_before: Vec<Vec<u128>> = (0..nd).map(|d| (0..nv).map(|vv| self.pending(d, vv)).collect()).collect();
        let before = self.app.storage().snapshot();
        let val = self.validator(v);
        let app = &mut self.app;
        let real = guarded(|| app.sudo(SudoMsg::Staking(StakingSudo::Slash { validator: val, percentage: if p_milli >= 1_000_000 { Decimal::raw(1_000_000_000_000_000_000u128 + (p_milli - 1_000_000) as u128) } else { Decimal::permille(p_milli as u64) } })).map(|_| ()));
        self.stats.steps += 1;
        match (real, valid) {
            (RealOut::Panic(p), _) => self.vall("panic", format!("{}: the simulator panicked: {}", what, p)),
            (RealOut::Err(_), false) => {
                self.stats.fault("invalid_slash");
                if self.app.storage().snapshot() != before {
                    self.v(P16, "rejected_with_effect", format!("{}: rejected but the chain state changed", what));
                }
            }
            (RealOut::Ok(()), false) => self.v(P16, "invalid_accepted", format!("{}: accepted although the fraction is above one or the validator unknown", what)),
            (RealOut::Err(e), true) => self.v(P16, "valid_rejected", format!("{}: rejected: {}", what, e)),
            (RealOut::Ok(()), true) => {
                self.m.slashes[vi] += 1;
                self.stats.fault("slash");
                let r_num = (1000 - p_milli) as u128;
                if p_milli == 1000 {
                    // "p = 1 removes the delegations entirely": the all-delegations listing must not mention the
                    // slashed validator any more, not even with amount 0
                    for d in 0..nd {
                        let listed = self.ask(false, || {
                            self.app.wrap().query_all_delegations(self.addrs[d].clone()).map(|all| all.iter().any(|x| x.validator == self.validators[vi])).unwrap_or(false)
                        });
                        if listed {
                            self.v(P16, "not_removed", format!("{}: after a full slash the delegations of delegator {} still list the slashed validator", what, d));
                            return;
                        }
                    }
                }
                // does any delegation to the slashed validator survive as a shown (whole-token) delegation?
                let mut any_left = false;
                for d in 0..nd {
                    if self.shown(d, vi).unwrap_or(0) > 0 {
                        any_left = true;
                    }
                }
                for d in 0..nd {
                    for vv in 0..nv {
                        let s = shown_before[d][vv];
                        let s2 = match self.shown(d, vv) {
                            Ok(x) => x,
                            Err(e) => {
                                self.v(P16, "query_failed", format!("{}: delegation query failed: {}", what, e));
                                return;
                            }
                        };
                        if vv != vi {
                            if s2 != s {
                                self.v(P16, "other_validator_touched", format!("{}: delegation ({},{}) to another validator went {} -> {}", what, d, vv, s, s2));
                                return;
                            }
                            if self.pending(d, vv) != pending_before[d][vv] {
                                self.v(P16, "rewards_touched", format!("{}: accrued reward of pair ({},{}) on another validator changed", what, d, vv));
                                return;
                            }
                            continue;
                        }
                        let x_hi = self.m.pairs.get(&(d, vv)).map(|p| p.x_hi).unwrap_or(0);
                        let lower = s * r_num / 1000;
                        let x_scaled = x_hi * r_num / 1000; // exact: x_hi is a multiple of 10^(3*remaining slashes)
                        let upper = s.min(x_scaled / XS);
                        if s2 < lower || s2 > upper {
                            self.v(
                                P16,
                                "slash_scaling",
                                format!("{}: delegation ({},{}) went {} -> {}; allowed is [{}, {}] (floor of shown x remaining .. floor of exact stake x remaining)", what, d, vv, s, s2, lower, upper),
                            );
                            return;
                        }
                        if s > 0 && s2 == 0 {
                            self.stats.probe("delegation_wiped_by_slash");
                        }
                        // accrued rewards stay: for every delegation still shown, and for sub-token ones too as long
                        // as the validator keeps any shown delegation (only when nothing whole is left may the
                        // delegations, and what hangs on them, be removed entirely)
                        if (s2 > 0 || any_left) && self.pending(d, vv) != pending_before[d][vv] {
                            self.v(P16, "rewards_touched", format!("{}: accrued reward of pair ({},{}) went {} -> {}", what, d, vv, pending_before[d][vv], self.pending(d, vv)));
                            return;
                        }
                        let p = self.pair(d, vv);
                        p.shown = s2;
                        p.x_hi = x_scaled;
                        if p.x_hi % XS != 0 {
                            // a sub-token remainder exists: legitimate implementations may drop it
                        }
                        // the lower stake drops the sub-token remainder after scaling
                        p.x_lo = (p.x_lo * r_num / 1000) / XS * XS;
                        if s2 == 0 {
                            p.in_l_period = false;
                            p.x_lo = 0;
                        } else {
                            p.x_lo = p.x_lo.min(s2 * XS);
                        }
                        if p.x_hi == 0 {
                            p.i_hi = Uint256::zero();
                            p.w_hi = 0;
                        }
                        if p.x_hi % XS != 0 {
                            self.stats.probe("sub_token_stake");
                        }
                    }
                }
                let mut twice = false;
                for q in self.m.queue.iter_mut() {
                    if q.v == vi {
                        if q.amount > 0 && q.amount * r_num % 1000 != 0 {
                            twice = true;
                        }
                        q.amount = q.amount * r_num / 1000;
                    }
                }
                if twice {
                    self.stats.probe("unbonding_slashed_with_remainder");
                }
                if self.m.queue.iter().any(|q| q.v == vi) {
                    self.stats.probe("pending_unbonding_slashed");
                }
                self.check_state(&what);
            }
        }
    }

    fn op_advance(&mut self, jump: &Jump, set: bool, slices: u32) {
        let now = self.m.now;
        let maturities: Vec<u64> = self.m.queue.iter().map(|q| q.payout_at).filter(|t| *t > now).collect();
        let target = match jump {
            Jump::Secs(s) => now + s * NS,
            Jump::Nanos(n) => now + n,
            Jump::Zero => now,
            Jump::ToMaturity => maturities.first().copied().unwrap_or(now + NS),
            Jump::ToMaturityMinus1 => maturities.first().map(|t| (*t - NS).max(now)).unwrap_or(now),
            Jump::ToMaturityPlus1 => maturities.first().map(|t| *t + NS).unwrap_or(now + NS),
            Jump::ToMaturityMinusNanos(n) => maturities.first().map(|t| t.saturating_sub(*n as u64).max(now)).unwrap_or(now),
            Jump::ToMaturityPlusNanos(n) => maturities.first().map(|t| *t + *n as u64).unwrap_or(now + *n as u64),
            Jump::PastSeveral(k) => maturities.get(*k as usize).or(maturities.last()).map(|t| *t + 5 * NS).unwrap_or(now + 7 * NS),
        };
        let slices = slices.clamp(1, 4) as u64;
        let total = target - now;
        for i in 1..=slices {
            let t = now + total * i / slices;
            self.advance_to(t, set, jump);
            if !self.viol.is_empty() {
                return;
            }
        }
    }

    fn advance_to(&mut self, t: u64, set: bool, jump: &Jump) {
        let cur = self.app.block_info();
        let dt = t - self.m.now;
        let new = BlockInfo { height: cur.height + 1, time: cur.time.plus_nanos(dt), chain_id: cur.chain_id.clone() };
        let app = &mut self.app;
        let nb = new.clone();
        let real = if set {
            guarded(|| {
                app.set_block(nb);
                Ok(())
            })
        } else {
            guarded(|| {
                app.update_block(|b| {
                    b.height += 1;
                    b.time = b.time.plus_nanos(dt);
                });
                Ok(())
            })
        };
        self.stats.steps += 1;
        self.stats.sim_seconds += dt / NS;
        self.stats.fault(match jump {
            Jump::Secs(_) => "clock_jump_span",
            Jump::Zero => "clock_zero_jump",
            Jump::ToMaturity => "clock_jump_to_maturity",
            Jump::ToMaturityMinus1 => "clock_jump_to_maturity_minus_1",
            Jump::ToMaturityPlus1 => "clock_jump_to_maturity_plus_1",
            Jump::PastSeveral(_) => "clock_jump_past_several",
            Jump::Nanos(_) => "clock_jump_sub_second",
            Jump::ToMaturityMinusNanos(_) => "clock_jump_to_maturity_minus_nanos",
            Jump::ToMaturityPlusNanos(_) => "clock_jump_to_maturity_plus_nanos",
        });
        match real {
            RealOut::Panic(p) => {
                self.vall("block_update_panic", format!("block update to t+{} ns panicked: {}", dt, p));
                return;
            }
            RealOut::Err(e) => {
                self.vall("block_update_failed", format!("block update failed: {}", e));
                return;
            }
            RealOut::Ok(()) => {}
        }
        self.m.now = t;
        self.accrue();
        // payouts: first block update at or after the unbonding period, not earlier
        while let Some(q) = self.m.queue.front().cloned() {
            if q.payout_at <= t {
                self.m.queue.pop_front();
                self.m.balances[q.d] += q.amount;
                self.stats.probe("unbonding_paid");
            } else {
                break;
            }
        }
        self.check_state(&format!("block update (+{}.{:09} s)", dt / NS, dt % NS));
    }

    pub fn step(&mut self, op: &SOp) {
        self.step_inner(op);
        let p = self.sut_panic.borrow_mut().take();
        if let Some(p) = p {
            self.vall("panic", format!("the simulator panicked while the checker queried it (balances, delegations, rewards): {}", p));
        }
    }

    fn step_inner(&mut self, op: &SOp) {
        let nd = self.m.withdraw_to.len().min(self.addrs.len());
        let ndel = nd.min(self.m.slashes.len().max(nd));
        let _ = ndel;
        match op {
            SOp::Msg { d, m } => {
                let d = *d as usize % self.n_delegators();
                self.op_msgs(d, std::slice::from_ref(m), false)
            }
            SOp::Batch { d, ms } => {
                let d = *d as usize % self.n_delegators();
                if !ms.is_empty() {
                    self.op_msgs(d, ms, true)
                }
            }
            SOp::Withdraw { d, v } => {
                let d = *d as usize % self.n_delegators();
                self.op_withdraw(d, *v)
            }
            SOp::SetWithdraw { d, to } => {
                let d = *d as usize % self.n_delegators();
                self.op_set_withdraw(d, *to)
            }
            SOp::Poisoned { d, to, v } => {
                let d = *d as usize % self.n_delegators();
                self.op_poisoned(d, *to, *v)
            }
            SOp::DupValidator { v } => self.op_dup_validator(*v),
            SOp::Slash { v, p_milli } => self.op_slash(*v, *p_milli),
            SOp::Advance { jump, set, slices } => self.op_advance(jump, *set, *slices),
        }
    }

    fn n_delegators(&self) -> usize {
        self.m.withdraw_to.len()
    }
}

/// everything a response shows goes into the run digest (twin comparison)
fn hash_events(dig: &mut Fnv, events: &[cosmwasm_std::Event]) {
    for e in events {
        dig.write_str(&e.ty);
        for a in &e.attributes {
            dig.write_str(&a.key);
            dig.write_str(&a.value);
        }
    }
}

pub fn build(case: &Case) -> Run {
    let world = World::new();
    set_current_world(Some(world.clone()));
    let prefix: &'static str = PREFIXES[case.prefix as usize % PREFIXES.len()];
    let api = crate::contract::SimApi::new(prefix, false);
    let nd = case.n_delegators.clamp(1, 12) as usize;
    let nv = case.n_validators.clamp(1, 9) as usize;
    let mut addrs: Vec<String> = (0..nd).map(|i| api.addr_make(&format!("delegator{}", i)).to_string()).collect();
    // two extra accounts usable as withdraw addresses
    addrs.push(api.addr_make("extra0").to_string());
    addrs.push(api.addr_make("extra1").to_string());
    // operator addresses are opaque strings to the staking module: bech32 ones, or plain names that differ
    // from each other only in the case of their letters
    let validators: Vec<String> = (0..nv)
        .map(|i| {
            if case.plain_validators {
                match i {
                    0 => "ValoperA".to_string(),
                    1 => "valopera".to_string(),
                    2 => "VALOPERA".to_string(),
                    // names that are proper prefixes of one another
                    3 => "val1".to_string(),
                    4 => "val10".to_string(),
                    5 => "val100".to_string(),
                    _ => format!("Operator{}", i),
                }
            } else {
                api.addr_make(&format!("validator{}", i)).to_string()
            }
        })
        .collect();
    let mut names = Names { prefix: prefix.to_string(), ..Default::default() };
    names.accounts = addrs.clone();
    names.ghosts = (0..4).map(|i| api.addr_make(&format!("ghost{}", i)).to_string()).collect();
    let default_params = case.default_params;
    let validators_first = case.validators_first;
    let denom = if default_params { "TOKEN".to_string() } else { DENOMS[case.bonded as usize % DENOMS.len()].to_string() };
    let foreign_denom = if case.lookalike_foreign {
        // "TOKEN" -> "token", "ustake" -> "USTAKE", "atom" -> "ATOM"
        if denom.chars().any(|c| c.is_ascii_uppercase()) { denom.to_ascii_lowercase() } else { denom.to_ascii_uppercase() }
    } else {
        "denom1".to_string()
    };
    names.denoms = vec![denom.clone(), foreign_denom.clone()];
    names.validators = validators.clone();
    world.0.borrow_mut().names = names;
    let apr = if default_params { 1_000 } else { case.apr.min(10_000) };
    let commissions: Vec<u32> = (0..nv).map(|i| case.commissions.get(i).copied().unwrap_or(0).min(10_000)).collect();
    let init = case.init_balance.min(1_000_000_000) as u128;
    let unbonding = if default_params { 60 } else { case.unbonding_secs.min(30 * 86400) };
    let addrs2 = addrs.clone();
    let vals2 = validators.clone();
    let comm2 = commissions.clone();
    let denom2 = denom.clone();
    let foreign2 = foreign_denom.clone();
    let maxc2: Vec<u32> = (0..nv).map(|i| case.max_commissions.get(i).copied().unwrap_or(10_000).min(10_000)).collect();
    let mut app: SimApp = BasicAppBuilder::<SimMsg, SimQuery>::new_custom()
        .with_api(api)
        .with_storage(SimStorage::new())
        .with_bank(RecBank { inner: BankKeeper::new(), world: world.clone() })
        .with_wasm(RecWasm { inner: cw_multi_test::WasmKeeper::new(), world: world.clone() })
        .with_custom(RecCustom { world: world.clone(), inner: CustomInner::Stub })
        .with_staking(RecStaking { inner: StakeKeeper::new(), world: world.clone() })
        .with_distribution(RecDistr { inner: DistributionKeeper::new(), world: world.clone() })
        .with_ibc(RecIbc { world: world.clone(), inner: IbcInner::Stub })
        .with_gov(RecGov { world: world.clone(), inner: GovInner::Stub })
        .with_stargate(RecStargate { world: world.clone(), inner: StargateInner::Stub })
        .build(|router, api, storage| {
            for a in addrs2.iter().take(nd) {
                router.bank.inner.init_balance(storage, &Addr::unchecked(a.clone()), vec![coin(init, denom2.clone()), coin(1000, foreign2.clone())]).unwrap();
            }
            let configure = |router: &mut cw_multi_test::Router<RecBank, RecCustom, RecWasm, RecStaking, RecDistr, RecIbc, RecGov, RecStargate>, storage: &mut dyn cosmwasm_std::Storage| {
                if !default_params {
                    router
                        .staking
                        .inner
                        .setup(storage, StakingInfo { bonded_denom: denom2.clone(), unbonding_time: unbonding, apr: Decimal::from_ratio(apr, 10_000u128) })
                        .unwrap();
                }
            };
            if !validators_first {
                configure(router, storage);
            }
            let block = mock_env().block;
            for (i, v) in vals2.iter().enumerate() {
                router
                    .staking
                    .inner
                    .add_validator(api, storage, &block, Validator::create(v.clone(), Decimal::from_ratio(comm2[i], 10_000u128), Decimal::from_ratio(maxc2[i], 10_000u128), Decimal::one()))
                    .unwrap();
            }
            if validators_first {
                configure(router, storage);
            }
        });
    let mut balances = vec![init; nd];
    balances.push(0);
    balances.push(0);
    let mut contract0 = false;
    if case.contract_delegator && nd >= 2 {
        // delegator 0 becomes a contract; its funds come from the plain account it replaces
        let code = make_code(CodeKind::Direct, 0, &world, None);
        let owner = Addr::unchecked(addrs[0].clone());
        let id = app.store_code_with_creator(owner.clone(), code);
        let node = Node { nid: 1, bind: Some(0), ..Default::default() };
        if let Ok(c) = app.instantiate_contract(id, owner.clone(), &node, &[coin(init, denom.clone())], "delegator-contract", None) {
            // the replaced plain account keeps nothing of the staking denomination and is not used further
            addrs[0] = c.to_string();
            world.0.borrow_mut().names.accounts[0] = c.to_string();
            contract0 = true;
        }
    }
    let _ = world.take_trace();
    let _ = world.take_module_calls();
    let rates: Vec<u128> = commissions.iter().map(|c| apr as u128 * (10_000 - *c as u128)).collect();
    let now = mock_env().block.time.nanos();
    Run {
        app,
        sut_panic: std::cell::RefCell::new(None),
        denom,
        foreign_denom,
        addrs,
        validators,
        contract0,
        rates,
        m: SModel {
            balances,
            pairs: BTreeMap::new(),
            queue: VecDeque::new(),
            withdraw_to: (0..nd).collect(),
            slashes: vec![0; nv],
            now,
            accrued_to: now,
        },
        stats: RunStats::default(),
        dig: Fnv::new(),
        viol: vec![],
        unbonding,
        nid: 1,
    }
}

pub fn execute_case(case: &Case) -> RunResult {
    let mut run = build(case);
    let _decoy = if case.decoy {
        use cw_multi_test::App;
        // either everything differs, or only the annual rate does (so that the main chain's operations would
        // still go through if it looked at the wrong parameters, and only the rewards would be off)
        let same_shape = case.init_balance % 2 == 0;
        let info = if same_shape {
            StakingInfo {
                bonded_denom: run.denom.clone(),
                unbonding_time: run.unbonding,
                apr: Decimal::from_ratio((case.apr.min(10_000) + 4_000) % 10_001, 10_000u128),
            }
        } else {
            StakingInfo { bonded_denom: "decoycoin".to_string(), unbonding_time: 7, apr: Decimal::percent(50) }
        };
        Some(App::new(move |router, api, storage| {
            router.staking.setup(storage, info).unwrap();
            let block = mock_env().block;
            let v = api.addr_make("decoyvalidator");
            router
                .staking
                .add_validator(api, storage, &block, Validator::create(v.to_string(), Decimal::percent(3), Decimal::one(), Decimal::one()))
                .unwrap();
        }))
    } else {
        None
    };
    run.check_state("setup");
    let mut sig = Fnv::new();
    for op in &case.ops {
        if !run.viol.is_empty() {
            break;
        }
        let tag = match op {
            SOp::Msg { m: StakeMsg::Delegate { .. }, .. } => "d",
            SOp::Msg { m: StakeMsg::Undelegate { .. }, .. } => "u",
            SOp::Msg { m: StakeMsg::Redelegate { .. }, .. } => "r",
            SOp::Batch { .. } => "b",
            SOp::Withdraw { .. } => "w",
            SOp::SetWithdraw { .. } => "a",
            SOp::Poisoned { .. } => "p",
            SOp::DupValidator { .. } => "v",
            SOp::Slash { v, .. } => ["s0", "s1", "s2", "s3", "s4"][(*v as usize).min(4)],
            SOp::Advance { jump, .. } => match jump {
                Jump::Secs(_) => "t",
                Jump::Zero => "z",
                Jump::ToMaturity => "m",
                Jump::ToMaturityMinus1 => "m-",
                Jump::ToMaturityPlus1 => "m+",
                Jump::PastSeveral(_) => "M",
                Jump::Nanos(_) => "n",
                Jump::ToMaturityMinusNanos(_) => "mn-",
                Jump::ToMaturityPlusNanos(_) => "mn+",
            },
        };
        sig.write_str(tag);
        run.step(op);
        run.dig.write_u64(run.app.storage().digest());
    }
    run.stats.signature = sig.finish();
    run.stats.nontrivial = run.stats.faults.contains_key("slash") || run.stats.faults.keys().any(|k| k.starts_with("clock_jump_to_maturity"));
    run.dig.write_u64(run.viol.len() as u64);
    run.stats.digest = run.dig.finish();
    set_current_world(None);
    RunResult { violations: run.viol, stats: run.stats }
}

fn gen_amt(rng: &mut Rng) -> SAmt {
    match rng.below(12) {
        0 => SAmt::Zero,
        1 | 2 => SAmt::AllShown,
        3 => SAmt::ShownPlus(1),
        4 => SAmt::Half,
        5 => SAmt::Abs(rng.range(1, 3)),
        6 => SAmt::Abs(rng.range(1, 1_000_000)),
        _ => SAmt::Abs(rng.range(1, 200)),
    }
}

fn gen_msg(rng: &mut Rng, nv: u32) -> StakeMsg {
    let v = if rng.chance(1, 30) { nv } else { rng.below(nv as u64) as u32 };
    match rng.below(10) {
        0..=4 => StakeMsg::Delegate { v, amt: if rng.chance(1, 12) { SAmt::Zero } else { SAmt::Abs(if rng.chance(1, 3) { rng.range(1, 9) } else { rng.range(1, 5000) }) }, foreign: rng.chance(1, 30) },
        5..=7 => StakeMsg::Undelegate { v, amt: gen_amt(rng), foreign: rng.chance(1, 30) },
        _ => StakeMsg::Redelegate { src: v, dst: if rng.chance(1, 30) { nv } else { rng.below(nv as u64) as u32 }, amt: gen_amt(rng), foreign: rng.chance(1, 15) },
    }
}

impl Engine for StakeSim {
    type Case = Case;
    fn name(&self) -> &'static str {
        "stakesim"
    }
    fn properties(&self) -> &'static [&'static str] {
        &["C14", "C15", "C16"]
    }
    fn budget(&self, cfg: &Cfg) -> Budget {
        match cfg.tier {
            Tier::Quick => Budget { runs: 30_000, max_secs: 40.0 },
            Tier::Thorough => Budget { runs: 1_500_000, max_secs: 480.0 },
        }
    }

    fn generate(&self, rng: &mut Rng, cfg: &Cfg) -> Case {
        // one run in six is "wide": many delegators and validators (long staker lists, long queues)
        let wide = rng.chance(1, 6);
        let nd = if wide { 6 + rng.below(7) as u32 } else { 2 + rng.below(4) as u32 };
        let nv = if wide { 4 + rng.below(6) as u32 } else { 2 + rng.below(3) as u32 };
        let rates = [0u32, 1, 500, 1000, 1234, 2500, 5000, 9999, 10_000];
        let commissions = (0..nv).map(|_| *rng.pick(&rates)).collect();
        let max_commissions = (0..nv).map(|_| if rng.chance(1, 2) { 10_000 } else { *rng.pick(&rates) }).collect();
        let apr = *rng.pick(&[0u32, 1, 300, 1000, 1000, 2500, 7777, 10_000]);
        let unbonding_secs = *rng.pick(&[0u64, 1, 60, 60, 3600, 86_400, 21 * 86_400, 30 * 86_400]);
        let nops = 10 + rng.usize(if cfg.tier == Tier::Thorough { 110 } else { 50 });
        // swarm weights: msg, batch, withdraw, set-withdraw, slash, advance
        let mut w = [10u32, 2, 4, 1, 3, 8];
        match cfg.property.as_str() {
            "C15" => {
                w[2] = 8;
                w[3] = 3;
                w[5] = 12;
            }
            "C16" => w[4] = 7,
            _ => {}
        }
        let nops = if wide { nops + 40 } else { nops };
        if wide {
            // long staker lists and long unbonding queues: many messages between clock jumps
            w[0] = 26;
            w[1] = 6;
            w[5] = 3;
        }
        for x in w.iter_mut().skip(1) {
            if rng.chance(1, 7) {
                *x = 0;
            }
        }
        let mut ops = vec![];
        let mut total_secs: u64 = 0;
        // pairs that were probably delegated to: un- and redelegations mostly aim at those
        let mut hot: Vec<(u32, u32)> = vec![];
        for _ in 0..nops {
            let d = rng.below(nd as u64) as u32;
            let op = match rng.weighted(&w) {
                0 => {
                    let mut m = gen_msg(rng, nv);
                    let mut d = d;
                    match &mut m {
                        StakeMsg::Delegate { v, .. } => hot.push((d, *v)),
                        StakeMsg::Undelegate { v, amt, .. } if !hot.is_empty() && rng.chance(3, 4) => {
                            let (hd, hv) = *rng.pick(&hot);
                            d = hd;
                            *v = hv;
                            if wide && rng.chance(1, 2) {
                                // small pieces, so that many unbondings of one pair queue up
                                *amt = SAmt::Abs(rng.range(1, 5));
                            }
                        }
                        StakeMsg::Redelegate { src, .. } if !hot.is_empty() && rng.chance(3, 4) => {
                            let (hd, hv) = *rng.pick(&hot);
                            d = hd;
                            *src = hv;
                        }
                        _ => {}
                    }
                    if let StakeMsg::Redelegate { dst, .. } = &m {
                        hot.push((d, *dst));
                    }
                    SOp::Msg { d, m }
                }
                1 => {
                    let n = 1 + rng.below(3);
                    SOp::Batch { d, ms: (0..n).map(|_| gen_msg(rng, nv)).collect() }
                }
                2 => SOp::Withdraw { d, v: if rng.chance(1, 30) { nv } else { rng.below(nv as u64) as u32 } },
                3 if rng.chance(1, 6) => SOp::DupValidator { v: rng.below(nv as u64) as u32 },
                3 if rng.chance(1, 3) => SOp::Poisoned { d, to: rng.below(nd as u64 + 2) as u32, v: rng.below(nv as u64) as u32 },
                3 => SOp::SetWithdraw { d, to: rng.below(nd as u64 + 2) as u32 },
                4 => {
                    let p = match rng.below(10) {
                        0 => 1000,
                        1 => 0,
                        2 => 500,
                        3 => 400,
                        // above one: from one unit of the 18th decimal to 300 %
                        4 => {
                            let r = 1001 + rng.below(2000) as u32;
                            *rng.pick(&[1001u32, 1005, 1009, 1010, 1011, 1_000_001, 1_000_002, 1_500_000, 4_000_000_000, r])
                        }
                        5 => 999,
                        _ => rng.below(1001) as u32,
                    };
                    SOp::Slash { v: if rng.chance(1, 30) { nv } else { rng.below(nv as u64) as u32 }, p_milli: p }
                }
                _ => {
                    let jump = match rng.below(13) {
                        0 => Jump::Zero,
                        1 | 2 => Jump::ToMaturity,
                        3 => Jump::ToMaturityMinus1,
                        4 => Jump::ToMaturityPlus1,
                        5 => Jump::PastSeveral(rng.below(3) as u32),
                        10 => Jump::Nanos(rng.range(1, 1_999_999_999)),
                        11 => Jump::ToMaturityMinusNanos(rng.range(1, 999_999_999) as u32),
                        12 => Jump::ToMaturityPlusNanos(rng.range(1, 999_999_999) as u32),
                        _ => {
                            let s = match rng.below(6) {
                                // exactly one year, one second less, one second more; exactly the unbonding time +- 1
                                5 => *rng.pick(&[365 * 86_400u64, 365 * 86_400 - 1, 365 * 86_400 + 1, unbonding_secs.saturating_sub(1).max(1), unbonding_secs + 1, 1]),
                                0 => rng.range(1, 120),
                                1 => rng.range(1, 86_400),
                                2 => rng.range(1, 365 * 86_400),
                                3 => rng.range(1, 2 * 365 * 86_400),
                                _ => unbonding_secs,
                            };
                            let s = s.min((10 * 365 * 86_400u64).saturating_sub(total_secs));
                            total_secs += s;
                            Jump::Secs(s)
                        }
                    };
                    SOp::Advance { jump, set: rng.chance(1, 2), slices: 1 + rng.below(4) as u32 }
                }
            };
            // bias: a slash right after an undelegation (pending unbonding in flight)
            let was_undelegate = matches!(op, SOp::Msg { m: StakeMsg::Undelegate { .. }, .. });
            let v_of = if let SOp::Msg { m: StakeMsg::Undelegate { v, .. }, .. } = &op { *v } else { 0 };
            ops.push(op);
            if was_undelegate && rng.chance(1, 6) {
                ops.push(SOp::Slash { v: v_of, p_milli: *rng.pick(&[500u32, 100, 333, 1000, 750]) });
            }
        }
        Case {
            prefix: rng.below(4) as u8,
            n_delegators: nd,
            contract_delegator: rng.chance(1, 3),
            n_validators: nv,
            commissions,
            max_commissions,
            apr,
            unbonding_secs,
            init_balance: *rng.pick(&[10u64, 1000, 100_000, 1_000_000_000]),
            bonded: if rng.chance(1, 3) { 1 + rng.below(2) as u8 } else { 0 },
            decoy: rng.chance(1, 4),
            plain_validators: rng.chance(1, 5),
            lookalike_foreign: rng.chance(1, 3),
            default_params: rng.chance(1, 8),
            validators_first: rng.chance(1, 4),
            ops,
        }
    }

    fn execute(&self, case: &Case) -> RunResult {
        execute_case(case)
    }

    fn shrink(&self, case: &Case) -> Vec<Case> {
        let mut out = vec![];
        for (s, e) in ddmin_drops(case.ops.len()) {
            let mut c = case.clone();
            c.ops = drop_range(&case.ops, s, e);
            out.push(c);
        }
        if case.contract_delegator {
            let mut c = case.clone();
            c.contract_delegator = false;
            out.push(c);
        }
        if case.prefix != 0 {
            let mut c = case.clone();
            c.prefix = 0;
            out.push(c);
        }
        if case.n_delegators > 2 {
            let mut c = case.clone();
            c.n_delegators -= 1;
            out.push(c);
        }
        if case.n_validators > 1 {
            let mut c = case.clone();
            c.n_validators -= 1;
            out.push(c);
        }
        if case.commissions.iter().any(|c| *c != 0) {
            let mut c = case.clone();
            c.commissions = vec![0; case.commissions.len()];
            out.push(c);
        }
        if case.apr != 1000 {
            let mut c = case.clone();
            c.apr = 1000;
            out.push(c);
        }
        if case.unbonding_secs != 60 {
            let mut c = case.clone();
            c.unbonding_secs = 60;
            out.push(c);
        }
        for (i, op) in case.ops.iter().enumerate() {
            match op {
                SOp::Batch { d, ms } => {
                    if ms.len() == 1 {
                        let mut c = case.clone();
                        c.ops[i] = SOp::Msg { d: *d, m: ms[0].clone() };
                        out.push(c);
                    }
                    for j in 0..ms.len() {
                        if ms.len() > 1 {
                            let mut c = case.clone();
                            let mut m2 = ms.clone();
                            m2.remove(j);
                            c.ops[i] = SOp::Batch { d: *d, ms: m2 };
                            out.push(c);
                        }
                    }
                }
                SOp::Advance { jump, set, slices } => {
                    if *slices > 1 {
                        let mut c = case.clone();
                        c.ops[i] = SOp::Advance { jump: jump.clone(), set: *set, slices: 1 };
                        out.push(c);
                    }
                    if *set {
                        let mut c = case.clone();
                        c.ops[i] = SOp::Advance { jump: jump.clone(), set: false, slices: *slices };
                        out.push(c);
                    }
                    if let Jump::Secs(s) = jump {
                        for ns in [s / 2, 61, 1] {
                            if ns < *s {
                                let mut c = case.clone();
                                c.ops[i] = SOp::Advance { jump: Jump::Secs(ns), set: *set, slices: *slices };
                                out.push(c);
                            }
                        }
                    }
                }
                SOp::Msg { d, m } => {
                    let simpler = match m {
                        StakeMsg::Delegate { v, amt: SAmt::Abs(n), foreign } if *n > 10 => Some(StakeMsg::Delegate { v: *v, amt: SAmt::Abs(n / 2), foreign: *foreign }),
                        StakeMsg::Undelegate { v, amt: SAmt::Abs(n), foreign } if *n > 1 => Some(StakeMsg::Undelegate { v: *v, amt: SAmt::Abs(n / 2), foreign: *foreign }),
                        _ => None,
                    };
                    if let Some(s) = simpler {
                        let mut c = case.clone();
                        c.ops[i] = SOp::Msg { d: *d, m: s };
                        out.push(c);
                    }
                }
                _ => {}
            }
        }
        out
    }

    fn rule(&self) -> String {
        "one case = staking parameters fixed at setup (APR, per-validator commissions with <= 4 decimals, unbonding time 1 s .. 30 d), 2-5 delegators (optionally one of them a contract whose staking messages arrive as sub-messages) x 2-4 validators (one run in six: 6-12 x 4-9), bonded denomination TOKEN / ustake / atom, and a seeded schedule of delegate / undelegate / redelegate (valid and invalid variants, single and in execute_multi batches), reward withdrawals, withdraw-address changes, slashes (fractions with <= 3 decimals in [0,1] and above) and block updates; the simulator owns the clock and jumps to the next unbonding maturity, one second before / after it, past several at once, by zero, or by random spans (seconds .. 2 years, sliced into 1-4 block updates, via update_block or set_block). After every step: all balances, all shown delegations (single and all-delegations queries), supply, payouts, reward bounds against exact integer arithmetic (never over-paid; short by less than one token per withdrawal plus one), per-slash before/after relation for every pair. Non-trivial = a valid slash happened or the clock jumped relative to a pending maturity. Distinct = hash of the (operation kind, slashed validator, clock-jump class) sequence.".to_string()
    }

    fn assumptions(&self, _cfg: &Cfg) -> Vec<String> {
        vec![
            "amounts <= 10^9 tokens, single jumps <= 2 years, <= 10 simulated years per run: no 128-bit / 18-decimal fixed-point overflow (the quantifier excludes it)".into(),
            format!("at most {} valid slashes per validator per run and fractions with <= 3 decimals, so that every stake is an exact multiple of 10^-15 token in the model", MAX_SLASHES_PER_VALIDATOR),
            "the pool account is not queryable through the address-validating bank query; 'the amount sits in the pool' is checked as: delegator balance down by the amount, total supply unchanged, every other known account unchanged".into(),
            "tolerance 10^-9 token on the reward bounds covers the 18-digit fixed-point truncation (shown amounts are whole tokens)".into(),
            "redelegating zero and AllDelegations entries of zero amount are left unconstrained (the statements do not mention them)".into(),
        ]
    }

    fn components(&self) -> serde_json::Value {
        json!({
            "real": ["App", "Router", "StakeKeeper", "DistributionKeeper", "BankKeeper", "transactional overlay", "WasmKeeper (contract delegator)", "App::update_block / set_block -> process_queue"],
            "shim_around_real": ["RecBank", "RecStaking", "RecDistr (pass-through)"],
            "stub": ["SimContract (delegator contract)", "SimStorage as root store"],
            "model": ["exact integer model of balances, shown delegations, unbonding queue; reward integrals in 1e-23 token per year-second"]
        })
    }

}
