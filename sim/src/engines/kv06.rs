//! kvsim / C06: the transactional KV overlay against an ordered-map model.
//! commit = sync, discard (or Err out of `transactional`) = crash, at every depth.

use crate::harness::*;
use crate::prng::{Fnv, Rng};
use crate::storage::{dump, hex, model_range, SimStorage};
use cosmwasm_std::{MemoryStorage, Order, Storage};
use cw_multi_test::verif::{transactional, Overlay};
use cw_multi_test::App;
use serde::{Deserialize, Serialize};
use serde_json::json;
use std::collections::BTreeMap;
use std::panic::{catch_unwind, AssertUnwindSafe};

type Map = BTreeMap<Vec<u8>, Vec<u8>>;

#[derive(Clone, Debug, Serialize, Deserialize, PartialEq)]
pub enum Op {
    Set { k: Vec<u8>, v: Vec<u8> },
    Remove { k: Vec<u8> },
    Get { k: Vec<u8> },
    Range { start: Option<Vec<u8>>, end: Option<Vec<u8>>, desc: bool },
    /// open a nested cache; `helper` = through `transactional()` instead of new/prepare/commit
    Push { helper: bool },
    /// close the innermost cache
    Pop { commit: bool },
}

#[derive(Clone, Debug, Serialize, Deserialize)]
pub struct Case {
    /// 0 MemoryStorage, 1 SimStorage, 2 prefixed view from App over MockStorage, 3 another overlay over MemoryStorage
    pub base_kind: u8,
    pub base_init: Vec<(Vec<u8>, Vec<u8>)>,
    /// the outermost cache is opened implicitly with this flavour
    pub outer_helper: bool,
    pub ops: Vec<Op>,
}

pub struct Kv06;

const P: &str = "C06";

fn key_pool() -> Vec<Vec<u8>> {
    vec![
        vec![],
        vec![0],
        vec![0, 0],
        vec![0, 1],
        b"a".to_vec(),
        vec![b'a', 0],
        vec![b'a', 0xff],
        b"ab".to_vec(),
        b"abc".to_vec(),
        b"b".to_vec(),
        b"c".to_vec(),
        vec![0x7f],
        vec![0x80],
        vec![0xfe],
        vec![0xff],
        vec![0xff, 0],
        vec![0xff, 0xff],
    ]
}

fn gen_key(rng: &mut Rng, pool: &[Vec<u8>]) -> Vec<u8> {
    if rng.chance(1, 12) {
        let n = rng.usize(4);
        rng.bytes(n)
    } else {
        rng.pick(pool).clone()
    }
}

struct Ctx<'a> {
    ops: &'a [Op],
    pos: usize,
    stats: RunStats,
    dig: Fnv,
    viol: Vec<Violation>,
    max_depth: usize,
}

impl<'a> Ctx<'a> {
    fn fail(&mut self, class: &str, detail: String) {
        if self.viol.is_empty() {
            self.viol.push(Violation::new(P, class, detail));
        }
    }
}

fn fmt_recs(r: &[(Vec<u8>, Vec<u8>)]) -> String {
    let v: Vec<String> = r.iter().map(|(k, v)| format!("{}={}", hex(k), hex(v))).collect();
    format!("[{}]", v.join(","))
}

fn check_range(
    ctx: &mut Ctx,
    st: &dyn Storage,
    m: &Map,
    start: &Option<Vec<u8>>,
    end: &Option<Vec<u8>>,
    desc: bool,
    what: &str,
    depth: usize,
) {
    let order = if desc { Order::Descending } else { Order::Ascending };
    let got = catch_unwind(AssertUnwindSafe(|| {
        st.range(start.as_deref(), end.as_deref(), order).collect::<Vec<_>>()
    }));
    let exp = model_range(m, start.as_deref(), end.as_deref(), desc);
    match got {
        Err(p) => ctx.fail(
            "C06.panic",
            format!("{} range({:?},{:?},desc={}) at depth {} panicked: {}", what, start.as_ref().map(|x| hex(x)), end.as_ref().map(|x| hex(x)), desc, depth, panic_message(&p)),
        ),
        Ok(got) => {
            for r in &got {
                ctx.dig.write(&r.0);
                ctx.dig.write(&r.1);
            }
            // the separately overridable keys-only / values-only iterations must agree as well
            let keys = catch_unwind(AssertUnwindSafe(|| st.range_keys(start.as_deref(), end.as_deref(), order).collect::<Vec<_>>()));
            let vals = catch_unwind(AssertUnwindSafe(|| st.range_values(start.as_deref(), end.as_deref(), order).collect::<Vec<_>>()));
            let exp_keys: Vec<Vec<u8>> = exp.iter().map(|r| r.0.clone()).collect();
            let exp_vals: Vec<Vec<u8>> = exp.iter().map(|r| r.1.clone()).collect();
            if keys.as_ref().ok() != Some(&exp_keys) || vals.as_ref().ok() != Some(&exp_vals) {
                ctx.fail(
                    if what == "base" { "C06.base_modified" } else { "C06.range_mismatch" },
                    format!("{} range_keys / range_values({:?},{:?},desc={}) at depth {} disagree with the ordered-map model", what, start.as_ref().map(|x| hex(x)), end.as_ref().map(|x| hex(x)), desc, depth),
                );
            }
            if got == exp && what != "base" {
                let am = catch_unwind(AssertUnwindSafe(|| crate::storage::adaptor_mismatch(st, start.as_deref(), end.as_deref(), order, &exp)));
                match am {
                    Err(p) => ctx.fail("C06.panic", format!("{} range at depth {} consumed through iterator adaptors panicked: {}", what, depth, panic_message(&p))),
                    Ok(Some(d)) => ctx.fail(
                        "C06.range_mismatch",
                        format!("{} range({:?},{:?},desc={}) at depth {}: {}", what, start.as_ref().map(|x| hex(x)), end.as_ref().map(|x| hex(x)), desc, depth, d),
                    ),
                    Ok(None) => {}
                }
            }
            if got != exp {
                // classify
                let mut dup = false;
                for w in got.windows(2) {
                    let ord_ok = if desc { w[0].0 > w[1].0 } else { w[0].0 < w[1].0 };
                    if !ord_ok {
                        dup = true;
                    }
                }
                let class = if what == "base" {
                    "C06.base_modified"
                } else if dup {
                    "C06.range_order_or_duplicate"
                } else {
                    "C06.range_mismatch"
                };
                ctx.fail(
                    class,
                    format!(
                        "{} range({:?},{:?},desc={}) at depth {}: got {} expected {}",
                        what,
                        start.as_ref().map(|x| hex(x)),
                        end.as_ref().map(|x| hex(x)),
                        desc,
                        depth,
                        fmt_recs(&got),
                        fmt_recs(&exp)
                    ),
                );
            }
        }
    }
}

/// Runs ops on an already-open cache until the matching Pop (or the end of the list, which
/// counts as a discard). Returns whether the cache is to be committed.
fn body(
    ctx: &mut Ctx,
    cache: &mut dyn Storage,
    base_ro: &dyn Storage,
    m: &mut Map,
    mbase: &Map,
    depth: usize,
) -> bool {
    ctx.max_depth = ctx.max_depth.max(depth);
    while ctx.pos < ctx.ops.len() && ctx.viol.is_empty() {
        let op = ctx.ops[ctx.pos].clone();
        ctx.pos += 1;
        ctx.stats.steps += 1;
        match op {
            Op::Set { k, v } => {
                if m.contains_key(&k) {
                    ctx.stats.probe("overwrite");
                }
                if mbase.contains_key(&k) {
                    ctx.stats.probe("shadow_base_key");
                }
                cache.set(&k, &v);
                m.insert(k, v);
                // the base must not change while the cache is alive
                check_range(ctx, base_ro, mbase, &None, &None, false, "base", depth);
            }
            Op::Remove { k } => {
                if mbase.contains_key(&k) {
                    ctx.stats.probe("delete_base_key");
                }
                if !m.contains_key(&k) {
                    ctx.stats.probe("delete_absent");
                }
                cache.remove(&k);
                m.remove(&k);
                check_range(ctx, base_ro, mbase, &None, &None, false, "base", depth);
            }
            Op::Get { k } => {
                let got = cache.get(&k);
                ctx.dig.write(got.as_deref().unwrap_or(b"\x00none"));
                let exp = m.get(&k).cloned();
                if got != exp {
                    ctx.fail(
                        "C06.get_mismatch",
                        format!("get({}) at depth {}: got {:?} expected {:?}", hex(&k), depth, got.map(|x| hex(&x)), exp.map(|x| hex(&x))),
                    );
                }
            }
            Op::Range { start, end, desc } => {
                if let (Some(s), Some(e)) = (&start, &end) {
                    if s > e {
                        ctx.stats.probe("inverted_bounds");
                    } else if s == e {
                        ctx.stats.probe("equal_bounds");
                    }
                }
                check_range(ctx, &*cache, m, &start, &end, desc, "cache", depth);
            }
            Op::Push { helper } => {
                if depth >= 6 {
                    continue;
                }
                level(ctx, cache, m, helper, depth + 1);
                // after the child ended, the parent must equal its model
                check_range(ctx, &*cache, m, &None, &None, false, "cache", depth);
            }
            Op::Pop { commit } => {
                return commit;
            }
        }
    }
    false
}

/// Opens a cache over `base`, runs its body, commits or discards, checks the base.
fn level(ctx: &mut Ctx, base: &mut dyn Storage, mbase: &mut Map, helper: bool, depth: usize) {
    let mut m = mbase.clone();
    let committed;
    if helper {
        let mbase_ro = mbase.clone();
        let res = transactional(base, |cache, read| {
            if body(ctx, cache, read, &mut m, &mbase_ro, depth) {
                Ok(())
            } else {
                Err(anyhow::anyhow!("discard"))
            }
        });
        committed = res.is_ok();
    } else {
        let commit;
        let log;
        {
            let base_ro: &dyn Storage = &*base;
            let mut cache = Overlay::new(base_ro);
            commit = body(ctx, &mut cache, base_ro, &mut m, mbase, depth);
            log = if commit { Some(cache.prepare()) } else { None };
        }
        if let Some(log) = log {
            log.commit(base);
        }
        committed = commit;
    }
    if committed {
        ctx.stats.fault("commit");
        *mbase = m;
    } else {
        ctx.stats.fault(if helper { "err_from_transactional" } else { "discard" });
        ctx.stats.fault(&format!("discard_at_depth_{}", depth));
    }
    if ctx.viol.is_empty() {
        let what = if committed { "base" } else { "base" };
        let before = ctx.viol.len();
        check_range(ctx, &*base, mbase, &None, &None, false, what, depth);
        if ctx.viol.len() > before {
            let cl = if committed { "C06.commit_mismatch" } else { "C06.discard_modified_base" };
            ctx.viol[0].class = cl.to_string();
        }
    }
}

impl Engine for Kv06 {
    type Case = Case;
    fn name(&self) -> &'static str {
        "kvsim-overlay"
    }
    fn properties(&self) -> &'static [&'static str] {
        &["C06"]
    }
    fn budget(&self, cfg: &Cfg) -> Budget {
        match cfg.tier {
            Tier::Quick => Budget { runs: 800_000, max_secs: 25.0 },
            Tier::Thorough => Budget { runs: 20_000_000, max_secs: 360.0 },
        }
    }

    fn generate(&self, rng: &mut Rng, cfg: &Cfg) -> Case {
        let mut pool = key_pool();
        // swarm: per-run subset of the key pool
        if rng.chance(1, 2) {
            let keep = 3 + rng.usize(pool.len() - 3);
            rng.shuffle(&mut pool);
            pool.truncate(keep);
        }
        let base_kind = rng.below(4) as u8;
        let ninit = rng.usize(8);
        let mut counter = 0u32;
        let mut val = |rng: &mut Rng| {
            counter += 1;
            let mut v = format!("v{}", counter).into_bytes();
            if rng.chance(1, 10) {
                v.push(0);
            }
            v
        };
        let mut base_init = vec![];
        for _ in 0..ninit {
            let k = gen_key(rng, &pool);
            let v = val(rng);
            base_init.push((k, v));
        }
        let max_ops = match cfg.tier {
            Tier::Quick => 60,
            Tier::Thorough => 200,
        };
        let nops = 5 + rng.usize(max_ops);
        // swarm weights: set, remove, get, range, push, pop
        let mut w = [6u32, 3, 3, 6, 2, 2];
        for x in w.iter_mut() {
            if rng.chance(1, 5) {
                *x = 0;
            } else if rng.chance(1, 4) {
                *x *= 3;
            }
        }
        if w.iter().all(|x| *x == 0) {
            w = [1, 1, 1, 1, 1, 1];
        }
        let mut ops = vec![];
        let mut depth = 1;
        let mut last_removed: Option<Vec<u8>> = None;
        let mut written: Vec<(Vec<u8>, Vec<u8>)> = base_init.clone();
        for _ in 0..nops {
            let op = match rng.weighted(&w) {
                0 => {
                    if !written.is_empty() && rng.chance(1, 5) {
                        // write back exactly a (key, value) pair that was current before (e.g. after a delete)
                        let (k, v) = rng.pick(&written).clone();
                        Op::Set { k, v }
                    } else {
                        // bias: set right after delete of the same key
                        let k = match (&last_removed, rng.chance(1, 4)) {
                            (Some(k), true) => k.clone(),
                            _ => gen_key(rng, &pool),
                        };
                        let v = val(rng);
                        written.push((k.clone(), v.clone()));
                        Op::Set { k, v }
                    }
                }
                1 => {
                    let k = gen_key(rng, &pool);
                    last_removed = Some(k.clone());
                    Op::Remove { k }
                }
                2 => Op::Get { k: gen_key(rng, &pool) },
                3 => {
                    let start = if rng.chance(1, 3) { None } else { Some(gen_key(rng, &pool)) };
                    let end = if rng.chance(1, 3) {
                        None
                    } else if rng.chance(1, 8) && start.is_some() {
                        start.clone()
                    } else {
                        Some(gen_key(rng, &pool))
                    };
                    Op::Range { start, end, desc: rng.chance(1, 2) }
                }
                4 => {
                    if depth < 6 {
                        depth += 1;
                        Op::Push { helper: rng.chance(1, 2) }
                    } else {
                        Op::Get { k: gen_key(rng, &pool) }
                    }
                }
                _ => {
                    if depth > 1 {
                        depth -= 1;
                        Op::Pop { commit: rng.chance(3, 5) }
                    } else {
                        Op::Range { start: None, end: None, desc: rng.chance(1, 2) }
                    }
                }
            };
            // bias: the crash (discard) right after a write that shadows or deletes a base key
            let was_write = matches!(op, Op::Set { .. } | Op::Remove { .. });
            ops.push(op);
            if was_write && depth > 1 && rng.chance(1, 12) {
                depth -= 1;
                ops.push(Op::Pop { commit: false });
            }
        }
        // close the remaining levels with explicit choices
        while depth > 1 {
            depth -= 1;
            ops.push(Op::Range { start: None, end: None, desc: false });
            ops.push(Op::Pop { commit: rng.chance(1, 2) });
        }
        ops.push(Op::Range { start: None, end: None, desc: true });
        ops.push(Op::Pop { commit: rng.chance(2, 3) });
        Case { base_kind, base_init, outer_helper: rng.chance(1, 2), ops }
    }

    fn execute(&self, case: &Case) -> RunResult {
        let mut ctx = Ctx {
            ops: &case.ops,
            pos: 0,
            stats: RunStats::default(),
            dig: Fnv::new(),
            viol: vec![],
            max_depth: 0,
        };
        let mut mbase: Map = BTreeMap::new();
        for (k, v) in &case.base_init {
            if !v.is_empty() {
                mbase.insert(k.clone(), v.clone());
            }
        }
        let fill = |s: &mut dyn Storage| {
            for (k, v) in &case.base_init {
                if !v.is_empty() {
                    s.set(k, v);
                }
            }
        };
        let r = catch_unwind(AssertUnwindSafe(|| match case.base_kind % 4 {
            0 => {
                let mut b = MemoryStorage::new();
                fill(&mut b);
                while ctx.pos < ctx.ops.len() && ctx.viol.is_empty() {
                    level(&mut ctx, &mut b, &mut mbase, case.outer_helper, 1);
                }
            }
            1 => {
                let mut b = SimStorage::new();
                fill(&mut b);
                while ctx.pos < ctx.ops.len() && ctx.viol.is_empty() {
                    level(&mut ctx, &mut b, &mut mbase, case.outer_helper, 1);
                }
            }
            2 => {
                let mut app = App::default();
                // neighbours outside the namespace must never be touched or seen
                app.storage_mut().set(b"\x00\x02ns", b"stray-before");
                app.storage_mut().set(b"\x00\x03nsz", b"stray-after");
                let outside = dump(app.storage());
                {
                    let mut view = app.prefixed_storage_mut(b"ns!");
                    fill(view.as_mut());
                    while ctx.pos < ctx.ops.len() && ctx.viol.is_empty() {
                        level(&mut ctx, view.as_mut(), &mut mbase, case.outer_helper, 1);
                    }
                }
                let all = dump(app.storage());
                for (k, v) in &outside {
                    if all.get(k) != Some(v) {
                        ctx.fail("C06.base_modified", format!("key {} outside the prefixed base changed", hex(k)));
                    }
                }
                if all.len() != outside.len() + mbase.len() {
                    ctx.fail("C06.base_modified", format!("root has {} keys, expected {}", all.len(), outside.len() + mbase.len()));
                }
            }
            _ => {
                let mut root = MemoryStorage::new();
                fill(&mut root);
                let root_model = mbase.clone();
                {
                    let mut b = Overlay::new(&root);
                    while ctx.pos < ctx.ops.len() && ctx.viol.is_empty() {
                        level(&mut ctx, &mut b, &mut mbase, case.outer_helper, 2);
                    }
                    // never committed: the root must be untouched
                }
                if dump(&root) != root_model {
                    ctx.fail("C06.base_modified", "root below an uncommitted overlay changed".to_string());
                }
            }
        }));
        if let Err(p) = r {
            ctx.fail("C06.panic", format!("panic: {}", panic_message(&p)));
        }
        let mut sig = Fnv::new();
        sig.write_u64(case.base_kind as u64);
        sig.write_u64(ctx.max_depth as u64);
        for (k, v) in &ctx.stats.probes {
            sig.write_str(k);
            sig.write_u64((*v).min(3));
        }
        for (k, v) in &ctx.stats.faults {
            sig.write_str(k);
            sig.write_u64((*v).min(3));
        }
        ctx.stats.signature = sig.finish();
        ctx.stats.nontrivial = ctx.stats.faults.keys().any(|k| k.starts_with("discard") || k == "err_from_transactional")
            && !ctx.stats.probes.is_empty();
        ctx.dig.write_u64(ctx.viol.len() as u64);
        ctx.stats.digest = ctx.dig.finish();
        RunResult { violations: ctx.viol, stats: ctx.stats }
    }

    fn shrink(&self, case: &Case) -> Vec<Case> {
        let mut out = vec![];
        for (s, e) in ddmin_drops(case.ops.len()) {
            let mut c = case.clone();
            c.ops = drop_range(&case.ops, s, e);
            out.push(c);
        }
        for (s, e) in ddmin_drops(case.base_init.len()) {
            let mut c = case.clone();
            c.base_init = drop_range(&case.base_init, s, e);
            out.push(c);
        }
        if case.base_kind != 0 {
            let mut c = case.clone();
            c.base_kind = 0;
            out.push(c);
        }
        if case.outer_helper {
            let mut c = case.clone();
            c.outer_helper = false;
            out.push(c);
        }
        for (i, op) in case.ops.iter().enumerate() {
            match op {
                Op::Push { helper: true } => {
                    let mut c = case.clone();
                    c.ops[i] = Op::Push { helper: false };
                    out.push(c);
                }
                Op::Range { start, end, desc } => {
                    if start.is_some() {
                        let mut c = case.clone();
                        c.ops[i] = Op::Range { start: None, end: end.clone(), desc: *desc };
                        out.push(c);
                    }
                    if end.is_some() {
                        let mut c = case.clone();
                        c.ops[i] = Op::Range { start: start.clone(), end: None, desc: *desc };
                        out.push(c);
                    }
                    if *desc {
                        let mut c = case.clone();
                        c.ops[i] = Op::Range { start: start.clone(), end: end.clone(), desc: false };
                        out.push(c);
                    }
                }
                _ => {}
            }
        }
        out
    }

    fn rule(&self) -> String {
        "one case = base store kind + initial base content + a seeded list of set/remove/get/range/push/pop operations on a stack of write-caches (pop = commit or discard; end of list = discard); every get/range is compared with an ordered-map model of that level, the base is re-read after every write, commit and discard. Non-trivial = at least one cache was discarded (the injected crash) and at least one interleaving probe fired (overwrite, shadowing or deleting a base key, delete of an absent key, inverted/equal bounds). Distinct = distinct hash of (base kind, max depth, probe kinds x min(count,3), fault kinds x min(count,3)).".to_string()
    }

    fn assumptions(&self, _cfg: &Cfg) -> Vec<String> {
        vec![
            "values are non-empty (cosmwasm MemoryStorage rejects empty values; the property quantifies over non-empty values)".into(),
            "cosmwasm_std::MemoryStorage and the harness SimStorage are trusted as base stores".into(),
            "the write-cache is reached through the pass-through wrappers of the `verif` feature (src/verif.rs)".into(),
        ]
    }

    fn components(&self) -> serde_json::Value {
        json!({"real": ["transactions::StorageTransaction (via verif::Overlay)", "transactions::transactional", "RepLog::commit", "PrefixedStorage (base kind 2, via App::prefixed_storage_mut)", "cosmwasm_std::MemoryStorage"], "stub": ["SimStorage (base kind 1)"], "model": ["BTreeMap per overlay level"]})
    }
}
