//! buildsim / C20: a seeded schedule (subset, order, repeats) of builder steps applied to one
//! object; afterwards the built object must hold exactly what was supplied. No faults and no
//! clock here: the schedule of order-sensitive steps is what the simulator owns.

use crate::harness::*;
use crate::modules::*;
use crate::prng::{Fnv, Rng};
use crate::resolve::{SimMsg, SimQuery};
use crate::world::World;
use cosmwasm_std::testing::{mock_dependencies, mock_env, MockApi, MockStorage};
use cosmwasm_std::{
    coin, to_json_binary, Addr, AnyMsg, Api, BankMsg, Binary, BlockInfo, CanonicalAddr, Checksum, CosmosMsg, CustomMsg, Deps, DepsMut,
    DistributionMsg, Empty, Env, GovMsg, IbcMsg, MessageInfo, Reply, Response, StakingMsg, StdError, Storage, SubMsgResult, Timestamp,
    VoteOption,
};
use cw_multi_test::error::{AnyError, AnyResult};
use cw_multi_test::{
    no_init, AddressGenerator, App, AppBuilder, BankKeeper, BasicAppBuilder, ChecksumGenerator, Contract, ContractWrapper,
    DistributionKeeper, Executor, FailingModule, GovFailingModule, IbcFailingModule, StakeKeeper, StargateFailing, WasmKeeper,
};
use serde::{Deserialize, Serialize};
use serde_json::json;
use std::cell::RefCell;
use std::rc::Rc;

const P: &str = "C20";

#[derive(Clone, Debug, Serialize, Deserialize, PartialEq)]
pub enum WStep {
    Sudo(u8),
    SudoEmpty(u8),
    Reply(u8),
    ReplyEmpty(u8),
    Migrate(u8),
    MigrateEmpty(u8),
    Checksum(u8),
}

#[derive(Clone, Debug, Serialize, Deserialize, PartialEq)]
pub enum BStep {
    Api(u8),
    Storage(u8),
    Block(u64),
    Wasm(u8),
    Bank,
    Custom,
    Staking,
    Distribution,
    Ibc,
    Gov,
    Stargate,
}

#[derive(Clone, Debug, Serialize, Deserialize)]
pub enum Case {
    /// ContractWrapper: chain message type custom or Empty, base constructor, schedule of with_* steps
    Wrapper { custom: bool, base_empty: bool, steps: Vec<WStep> },
    /// AppBuilder with components of the default types carrying distinguishable values
    Builder { steps: Vec<BStep> },
    /// AppBuilder with recording components of other types, in one of the compiled orders, with
    /// with_block (bit 1), with_api (bit 2) and with_storage (bit 4) steps inserted at seeded positions
    Typed { order: u8, extra_at: Vec<u8>, block: u64 },
}

pub struct BuildSim;

// ------------------------------------------------------------------ wrapper handlers

fn h_exec<C: CustomMsg>(_: DepsMut<Empty>, _: Env, _: MessageInfo, _: Empty) -> Result<Response<C>, StdError> {
    Ok(Response::new().add_attribute("execute", "base"))
}
fn h_inst<C: CustomMsg>(_: DepsMut<Empty>, _: Env, _: MessageInfo, _: Empty) -> Result<Response<C>, StdError> {
    Ok(Response::new().add_attribute("instantiate", "base"))
}
fn h_query(_: Deps<Empty>, _: Env, _: Empty) -> Result<Binary, StdError> {
    to_json_binary("query-base")
}
fn h_sudo<C: CustomMsg, const T: u8>(_: DepsMut<Empty>, _: Env, _: Empty) -> Result<Response<C>, AnyError> {
    Ok(Response::new().add_attribute("sudo", T.to_string()))
}
fn h_migrate<C: CustomMsg, const T: u8>(_: DepsMut<Empty>, _: Env, _: Empty) -> Result<Response<C>, AnyError> {
    Ok(Response::new().add_attribute("migrate", T.to_string()))
}
fn h_reply<C: CustomMsg, const T: u8>(_: DepsMut<Empty>, _: Env, _: Reply) -> Result<Response<C>, AnyError> {
    Ok(Response::new().add_attribute("reply", T.to_string()))
}

type W<C> = ContractWrapper<Empty, Empty, Empty, StdError, StdError, StdError, C, Empty>;

macro_rules! tagged {
    ($w:expr, $method:ident, $h:ident, $c:ty, $t:expr) => {
        match $t % 4 {
            0 => $w.$method($h::<$c, 0>),
            1 => $w.$method($h::<$c, 1>),
            2 => $w.$method($h::<$c, 2>),
            _ => $w.$method($h::<$c, 3>),
        }
    };
}

fn apply_wstep<C: CustomMsg + 'static>(w: W<C>, s: &WStep) -> W<C> {
    match s {
        WStep::Sudo(t) => tagged!(w, with_sudo, h_sudo, C, *t),
        WStep::SudoEmpty(t) => tagged!(w, with_sudo_empty, h_sudo, Empty, *t),
        WStep::Reply(t) => tagged!(w, with_reply, h_reply, C, *t),
        WStep::ReplyEmpty(t) => tagged!(w, with_reply_empty, h_reply, Empty, *t),
        WStep::Migrate(t) => tagged!(w, with_migrate, h_migrate, C, *t),
        WStep::MigrateEmpty(t) => tagged!(w, with_migrate_empty, h_migrate, Empty, *t),
        WStep::Checksum(b) => w.with_checksum(wrapper_checksum(*b)),
    }
}

/// tag 3 is the all-zero digest (a checksum like any other)
fn wrapper_checksum(b: u8) -> Checksum {
    if b % 4 == 3 {
        Checksum::from([0u8; 32])
    } else {
        Checksum::generate(&[b])
    }
}

fn attr_of<C>(r: AnyResult<Response<C>>, key: &str) -> Result<String, String> {
    match r {
        Ok(resp) => resp.attributes.iter().find(|a| a.key == key).map(|a| a.value.clone()).ok_or_else(|| "no attribute".to_string()),
        Err(e) => Err(e.to_string()),
    }
}

fn check_wrapper<C: CustomMsg + 'static>(base_empty: bool, steps: &[WStep], viol: &mut Vec<Violation>, dig: &mut Fnv) {
    let mut w: W<C> = if base_empty { ContractWrapper::new_with_empty(h_exec::<Empty>, h_inst::<Empty>, h_query) } else { ContractWrapper::new(h_exec::<C>, h_inst::<C>, h_query) };
    let mut exp_sudo: Option<u8> = None;
    let mut exp_reply: Option<u8> = None;
    let mut exp_migrate: Option<u8> = None;
    let mut exp_checksum: Option<Checksum> = None;
    for s in steps {
        w = apply_wstep(w, s);
        match s {
            WStep::Sudo(t) | WStep::SudoEmpty(t) => exp_sudo = Some(*t % 4),
            WStep::Reply(t) | WStep::ReplyEmpty(t) => exp_reply = Some(*t % 4),
            WStep::Migrate(t) | WStep::MigrateEmpty(t) => exp_migrate = Some(*t % 4),
            WStep::Checksum(b) => exp_checksum = Some(wrapper_checksum(*b)),
        }
    }
    let c: &dyn Contract<C, Empty> = &w;
    let env = mock_env();
    let mut fail = |class: &str, d: String| {
        if viol.is_empty() {
            viol.push(Violation::new(P, class, format!("wrapper steps {:?} (base_empty={}): {}", steps, base_empty, d)));
        }
    };
    let mut deps = mock_dependencies();
    let info = MessageInfo { sender: Addr::unchecked("sender"), funds: vec![] };
    if attr_of(c.execute(deps.as_mut(), env.clone(), info.clone(), b"{}".to_vec()), "execute") != Ok("base".into()) {
        fail("C20.wrapper_entry_point", "execute entry point lost".into());
    }
    if attr_of(c.instantiate(deps.as_mut(), env.clone(), info, b"{}".to_vec()), "instantiate") != Ok("base".into()) {
        fail("C20.wrapper_entry_point", "instantiate entry point lost".into());
    }
    if c.query(deps.as_ref(), env.clone(), b"{}".to_vec()).ok() != to_json_binary("query-base").ok() {
        fail("C20.wrapper_entry_point", "query entry point lost".into());
    }
    let got = attr_of(c.sudo(deps.as_mut(), env.clone(), b"{}".to_vec()), "sudo");
    dig.write_str(&format!("{:?}", got));
    match (exp_sudo, &got) {
        (Some(t), Ok(v)) if *v == t.to_string() => {}
        (None, Err(_)) => {}
        _ => fail("C20.wrapper_entry_point", format!("sudo: expected handler {:?}, got {:?}", exp_sudo, got)),
    }
    let got = attr_of(c.migrate(deps.as_mut(), env.clone(), b"{}".to_vec()), "migrate");
    dig.write_str(&format!("{:?}", got));
    match (exp_migrate, &got) {
        (Some(t), Ok(v)) if *v == t.to_string() => {}
        (None, Err(_)) => {}
        _ => fail("C20.wrapper_entry_point", format!("migrate: expected handler {:?}, got {:?}", exp_migrate, got)),
    }
    let reply = Reply { id: 1, payload: Binary::default(), gas_used: 0, result: SubMsgResult::Err("x".into()) };
    let got = attr_of(c.reply(deps.as_mut(), env, reply), "reply");
    dig.write_str(&format!("{:?}", got));
    match (exp_reply, &got) {
        (Some(t), Ok(v)) if *v == t.to_string() => {}
        (None, Err(_)) => {}
        _ => fail("C20.wrapper_entry_point", format!("reply: expected handler {:?}, got {:?}", exp_reply, got)),
    }
    if c.checksum() != exp_checksum {
        fail("C20.wrapper_checksum", format!("checksum is {:?}, supplied {:?}", c.checksum().map(|c| c.to_hex()), exp_checksum.map(|c| c.to_hex())));
    }
}

// ------------------------------------------------------------------ builder, default types

const API_PREFIXES: [&str; 3] = ["alpha", "beta", "gamma"];

struct TagGen(u8);
impl AddressGenerator for TagGen {
    fn contract_address(&self, api: &dyn Api, _storage: &mut dyn Storage, code_id: u64, instance_id: u64) -> AnyResult<Addr> {
        let mut bytes = vec![self.0, code_id as u8, instance_id as u8];
        bytes.resize(32, 0xAB);
        Ok(api.addr_humanize(&CanonicalAddr::from(bytes))?)
    }
}
struct TagCs(u8);
impl ChecksumGenerator for TagCs {
    fn checksum(&self, _creator: &Addr, code_id: u64) -> Checksum {
        Checksum::generate(&[0xC5, self.0, code_id as u8])
    }
}

type DefaultBuilder = AppBuilder<
    BankKeeper,
    MockApi,
    MockStorage,
    FailingModule<Empty, Empty, Empty>,
    WasmKeeper<Empty, Empty>,
    StakeKeeper,
    DistributionKeeper,
    IbcFailingModule,
    GovFailingModule,
    StargateFailing,
>;

fn block_of(h: u64) -> BlockInfo {
    // boundary values included: blank chain id, height 0-like small values, zero time
    // (and chain ids of 49 .. 52 and 300 characters, unicode, surrounding whitespace)
    let chain_id = match h % 13 {
        0 | 5 => String::new(),
        1 => format!("{:-<49}", format!("c{}", h)),
        2 => format!("{:-<50}", format!("c{}", h)),
        3 => format!("{:-<51}", format!("c{}", h)),
        4 => format!("{:-<300}", format!("c{}", h)),
        6 => format!(" chain-{} ", h),
        7 => format!("cha\u{e9}n-{}", h),
        _ => format!("chain-{}", h),
    };
    let time = if h % 7 == 0 { Timestamp::from_nanos(0) } else { Timestamp::from_seconds(1_000_000 + h) };
    // heights: 0, small, 2^63 - 1, 2^63, u64::MAX
    let height = match h % 17 {
        0 | 11 => 0,
        1 => i64::MAX as u64,
        2 => i64::MAX as u64 + 1,
        3 => u64::MAX,
        _ => h,
    };
    if h % 19 == 7 {
        // the default block with nothing but the time changed
        let mut b = cosmwasm_std::testing::mock_env().block;
        b.time = b.time.plus_seconds(1 + h);
        return b;
    }
    BlockInfo { height, time, chain_id }
}

fn apply_bstep(b: DefaultBuilder, s: &BStep) -> DefaultBuilder {
    match s {
        BStep::Api(i) => b.with_api(MockApi::default().with_prefix(API_PREFIXES[*i as usize % 3])),
        BStep::Storage(m) => {
            let mut st = MockStorage::new();
            st.set(b"marker", &[*m, 1]);
            st.set(b"doomed", b"removed by the init function");
            if *m % 2 == 1 {
                // the supplied storage may well hold state of another chain: length-prefixed namespaces
                st.set(b"\x00\x05otherkey", b"foreign module state");
            }
            b.with_storage(st)
        }
        BStep::Block(h) => b.with_block(block_of(*h)),
        BStep::Wasm(t) => b.with_wasm(WasmKeeper::new().with_address_generator(TagGen(*t)).with_checksum_generator(TagCs(*t))),
        BStep::Bank => b.with_bank(BankKeeper::new()),
        BStep::Custom => b.with_custom(FailingModule::new()),
        BStep::Staking => b.with_staking(StakeKeeper::new()),
        BStep::Distribution => b.with_distribution(DistributionKeeper::new()),
        BStep::Ibc => b.with_ibc(IbcFailingModule::new()),
        BStep::Gov => b.with_gov(GovFailingModule::new()),
        BStep::Stargate => b.with_stargate(StargateFailing),
    }
}

fn probe_contract() -> Box<dyn Contract<Empty>> {
    Box::new(ContractWrapper::new(h_exec::<Empty>, h_inst::<Empty>, h_query))
}

/// Builds with the given schedule, runs the fixed probe workload, returns (init count, transcript).
fn build_and_probe(steps: &[BStep]) -> (u32, Vec<String>) {
    let mut b: DefaultBuilder = AppBuilder::new();
    for s in steps {
        b = apply_bstep(b, s);
    }
    let init_count = Rc::new(RefCell::new(0u32));
    let seen: Rc<RefCell<Vec<String>>> = Rc::new(RefCell::new(vec![]));
    let ic = init_count.clone();
    let sn = seen.clone();
    let mut app = b.build(move |router, api, storage| {
        *ic.borrow_mut() += 1;
        sn.borrow_mut().push(format!("init saw marker {:?}", storage.get(b"marker")));
        let who = api.addr_make("rich");
        sn.borrow_mut().push(format!("init saw api {}", who));
        storage.set(b"init", b"done");
        storage.remove(b"doomed");
        router.bank.init_balance(storage, &who, vec![coin(1000, "coin")]).unwrap();
    });
    let mut t = seen.borrow().clone();
    t.push(format!("block {:?}", app.block_info()));
    t.push(format!("api {}", app.api().addr_make("x")));
    t.push(format!("marker {:?} init {:?} doomed {:?}", app.storage().get(b"marker"), app.storage().get(b"init"), app.storage().get(b"doomed")));
    let rich = app.api().addr_make("rich");
    let poor = app.api().addr_make("poor");
    let code = app.store_code(probe_contract());
    t.push(format!("code {}", code));
    t.push(format!("checksum {:?}", app.wrap().query_wasm_code_info(code).map(|i| i.checksum.to_hex()).map_err(|e| e.to_string())));
    let addr = app.instantiate_contract(code, rich.clone(), &Empty {}, &[], "probe", None);
    t.push(format!("instantiate {:?}", addr.as_ref().map(|a| a.to_string()).map_err(|e| e.root_cause().to_string())));
    let r = app.send_tokens(rich.clone(), poor.clone(), &[coin(10, "coin")]);
    t.push(format!("send ok={}", r.is_ok()));
    t.push(format!("balance {:?}", app.wrap().query_balance(poor, "coin").map(|c| c.amount.u128()).ok()));
    if let Ok(a) = addr {
        let r = app.execute_contract(rich.clone(), a, &Empty {}, &[]);
        t.push(format!("execute {:?}", r.map(|r| r.events.len()).map_err(|e| e.root_cause().to_string())));
    }
    let r = app.execute(rich, CosmosMsg::Custom(Empty {}));
    t.push(format!("custom ok={}", r.is_ok()));
    let c = *init_count.borrow();
    (c, t)
}

fn check_builder(steps: &[BStep], viol: &mut Vec<Violation>, dig: &mut Fnv) {
    let r = std::panic::catch_unwind(|| build_and_probe(steps));
    let (count, t) = match r {
        Ok(x) => x,
        Err(p) => {
            viol.push(Violation::new(P, "C20.builder_panic", format!("builder steps {:?}: panic {}", steps, panic_message(&p))));
            return;
        }
    };
    for l in &t {
        dig.write_str(l);
    }
    let mut fail = |class: &str, d: String| {
        if viol.is_empty() {
            viol.push(Violation::new(P, class, format!("builder steps {:?}: {}", steps, d)));
        }
    };
    if count != 1 {
        fail("C20.init_count", format!("init function ran {} times", count));
    }
    // expected values: the last step of each kind wins, defaults otherwise
    let mut api = None;
    let mut marker = None;
    let mut block = None;
    let mut wasm = None;
    for s in steps {
        match s {
            BStep::Api(i) => api = Some(*i),
            BStep::Storage(m) => marker = Some(*m),
            BStep::Block(h) => block = Some(*h),
            BStep::Wasm(w) => wasm = Some(*w),
            _ => {}
        }
    }
    let exp_api = match api {
        Some(i) => MockApi::default().with_prefix(API_PREFIXES[i as usize % 3]),
        None => MockApi::default(),
    };
    let exp_block = block.map(block_of).unwrap_or_else(|| mock_env().block);
    let exp_marker = marker.map(|m| vec![m, 1]);
    let want = vec![
        format!("init saw marker {:?}", exp_marker),
        format!("init saw api {}", exp_api.addr_make("rich")),
        format!("block {:?}", exp_block),
        format!("api {}", exp_api.addr_make("x")),
        format!("marker {:?} init {:?} doomed {:?}", exp_marker, Some(b"done".to_vec()), None::<Vec<u8>>),
        "code 1".to_string(),
    ];
    for (i, w) in want.iter().enumerate() {
        if t.get(i) != Some(w) {
            fail("C20.builder_component", format!("observed {:?}, supplied components imply {:?}", t.get(i), w));
        }
    }
    let exp_checksum = match wasm {
        Some(tg) => TagCs(tg).checksum(&Addr::unchecked("x"), 1).to_hex(),
        None => Checksum::generate(b"contract code 1").to_hex(),
    };
    if t.get(6) != Some(&format!("checksum {:?}", Ok::<String, String>(exp_checksum.clone()))) {
        fail("C20.builder_component", format!("observed {:?}, the supplied wasm keeper implies checksum {}", t.get(6), exp_checksum));
    }
    if let Some(tg) = wasm {
        let mut st = MockStorage::new();
        let a = TagGen(tg).contract_address(&exp_api, &mut st, 1, 0).map(|a| a.to_string()).map_err(|e| e.to_string());
        if t.get(7) != Some(&format!("instantiate {:?}", a)) {
            fail("C20.builder_component", format!("observed {:?}, the supplied address generator implies {:?}", t.get(7), a));
        }
    }
    // behaves identically for all orders: compare with the canonical order of the same effective subset
    let mut canon: Vec<BStep> = vec![];
    if let Some(i) = api {
        canon.push(BStep::Api(i));
    }
    if let Some(m) = marker {
        canon.push(BStep::Storage(m));
    }
    if let Some(h) = block {
        canon.push(BStep::Block(h));
    }
    if let Some(w) = wasm {
        canon.push(BStep::Wasm(w));
    }
    if let Ok((c2, t2)) = std::panic::catch_unwind(|| build_and_probe(&canon)) {
        if c2 != count || t2 != t {
            let i = t.iter().zip(t2.iter()).position(|(a, b)| a != b).unwrap_or(0);
            fail("C20.builder_order_dependence", format!("transcript differs from the canonical order {:?} at line {}: {:?} vs {:?}", canon, i, t.get(i), t2.get(i)));
        }
    }
}

// ------------------------------------------------------------------ builder, recording types

struct Tagged {
    bank: World,
    custom: World,
    staking: World,
    distr: World,
    ibc: World,
    gov: World,
    stargate: World,
}

macro_rules! typed_build {
    ($t:expr, $extra:expr, $blk:expr; $($step:ident),*) => {{
        let b = BasicAppBuilder::<SimMsg, SimQuery>::new_custom();
        let mut i = 0usize;
        $(
            let b = typed_build!(@step b, $t, $step);
            let f = $extra.get(i).copied().unwrap_or(0);
            let b = if f & 1 != 0 { b.with_block(block_of($blk + i as u64)) } else { b };
            let b = if f & 2 != 0 { b.with_api(MockApi::default().with_prefix(API_PREFIXES[i % 3])) } else { b };
            let b = if f & 4 != 0 {
                let mut st = MockStorage::new();
                st.set(b"marker", &[i as u8, 2]);
                b.with_storage(st)
            } else {
                b
            };
            i += 1;
        )*
        let _ = i;
        b.build(no_init)
    }};
    (@step $b:expr, $t:expr, bank) => { $b.with_bank(RecBank { inner: BankKeeper::new(), world: $t.bank.clone() }) };
    (@step $b:expr, $t:expr, custom) => { $b.with_custom(RecCustom { world: $t.custom.clone(), inner: CustomInner::Stub }) };
    (@step $b:expr, $t:expr, staking) => { $b.with_staking(RecStaking { inner: StakeKeeper::new(), world: $t.staking.clone() }) };
    (@step $b:expr, $t:expr, distr) => { $b.with_distribution(RecDistr { inner: DistributionKeeper::new(), world: $t.distr.clone() }) };
    (@step $b:expr, $t:expr, ibc) => { $b.with_ibc(RecIbc { world: $t.ibc.clone(), inner: IbcInner::Stub }) };
    (@step $b:expr, $t:expr, gov) => { $b.with_gov(RecGov { world: $t.gov.clone(), inner: GovInner::Stub }) };
    (@step $b:expr, $t:expr, stargate) => { $b.with_stargate(RecStargate { world: $t.stargate.clone(), inner: StargateInner::Stub }) };
}

type TypedApp = App<RecBank, MockApi, MockStorage, RecCustom, WasmKeeper<SimMsg, SimQuery>, RecStaking, RecDistr, RecIbc, RecGov, RecStargate>;

pub const TYPED_ORDERS: u8 = 8;

fn typed_app(order: u8, t: &Tagged, blocks: &[u8], blk: u64) -> TypedApp {
    match order % TYPED_ORDERS {
        0 => typed_build!(t, blocks, blk; bank, custom, staking, distr, ibc, gov, stargate),
        1 => typed_build!(t, blocks, blk; stargate, gov, ibc, distr, staking, custom, bank),
        2 => typed_build!(t, blocks, blk; custom, bank, ibc, staking, stargate, distr, gov),
        3 => typed_build!(t, blocks, blk; gov, stargate, bank, custom, distr, ibc, staking),
        4 => typed_build!(t, blocks, blk; staking, distr, gov, bank, stargate, custom, ibc),
        5 => typed_build!(t, blocks, blk; ibc, custom, stargate, gov, bank, staking, distr),
        6 => typed_build!(t, blocks, blk; distr, staking, custom, stargate, gov, ibc, bank),
        _ => typed_build!(t, blocks, blk; custom, stargate, distr, bank, gov, staking, ibc),
    }
}

#[allow(deprecated)]
fn check_typed(order: u8, extra: &[u8], blk: u64, viol: &mut Vec<Violation>, dig: &mut Fnv) {
    let t = Tagged { bank: World::new(), custom: World::new(), staking: World::new(), distr: World::new(), ibc: World::new(), gov: World::new(), stargate: World::new() };
    let mut app = typed_app(order, &t, extra, blk);
    let sender = app.api().addr_make("sender");
    let msgs: Vec<(&str, CosmosMsg<SimMsg>)> = vec![
        ("bank", BankMsg::Send { to_address: sender.to_string(), amount: vec![coin(1, "x")] }.into()),
        ("custom", CosmosMsg::Custom(SimMsg { tag: "t".into() })),
        ("staking", StakingMsg::Delegate { validator: "v".into(), amount: coin(1, "TOKEN") }.into()),
        ("distribution", DistributionMsg::SetWithdrawAddress { address: sender.to_string() }.into()),
        ("ibc", CosmosMsg::Ibc(IbcMsg::CloseChannel { channel_id: "c".into() })),
        ("gov", CosmosMsg::Gov(GovMsg::Vote { proposal_id: 1, option: VoteOption::Yes })),
        ("stargate", CosmosMsg::Stargate { type_url: "/u".into(), value: Binary::default() }),
        ("any", CosmosMsg::Any(AnyMsg { type_url: "/a".into(), value: Binary::default() })),
    ];
    for (_, m) in msgs.iter() {
        let _ = app.execute(sender.clone(), m.clone());
    }
    let worlds: [(&str, &World, Vec<&str>); 7] = [
        ("bank", &t.bank, vec!["bank"]),
        ("custom", &t.custom, vec!["custom"]),
        ("staking", &t.staking, vec!["staking"]),
        ("distribution", &t.distr, vec!["distribution"]),
        ("ibc", &t.ibc, vec!["ibc"]),
        ("gov", &t.gov, vec!["gov"]),
        ("stargate", &t.stargate, vec!["stargate", "any"]),
    ];
    let mut fail = |d: String| {
        if viol.is_empty() {
            viol.push(Violation::new(P, "C20.builder_component", format!("typed order {} (extra steps after each typed step: {:?}; 1=with_block 2=with_api 4=with_storage): {}", order, extra, d)));
        }
    };
    for (name, w, kinds) in worlds.iter() {
        let calls = w.take_module_calls();
        let got: Vec<String> = calls.iter().map(|c| c.kind.clone()).collect();
        dig.write_str(&got.join(","));
        let exp: Vec<String> = kinds.iter().map(|k| k.to_string()).collect();
        if got != exp || calls.iter().any(|c| c.sender != sender.as_str()) {
            fail(format!("the supplied {} component saw calls {:?}, expected {:?}", name, got, exp));
        }
    }
    let last = |bit: u8| extra.iter().take(7).enumerate().filter(|(_, f)| **f & bit != 0).map(|(i, _)| i).last();
    let exp_block = match last(1) {
        Some(i) => block_of(blk + i as u64),
        None => mock_env().block,
    };
    if app.block_info() != exp_block {
        fail(format!("block is {:?} expected {:?}", app.block_info(), exp_block));
    }
    let exp_api = match last(2) {
        Some(i) => MockApi::default().with_prefix(API_PREFIXES[i % 3]),
        None => MockApi::default(),
    };
    if app.api().addr_make("x") != exp_api.addr_make("x") {
        fail(format!("api makes {} expected {}", app.api().addr_make("x"), exp_api.addr_make("x")));
    }
    let exp_marker = last(4).map(|i| vec![i as u8, 2]);
    if app.storage().get(b"marker") != exp_marker {
        fail(format!("storage marker is {:?} expected {:?}", app.storage().get(b"marker"), exp_marker));
    }
}

impl Engine for BuildSim {
    type Case = Case;
    fn name(&self) -> &'static str {
        "buildsim"
    }
    fn properties(&self) -> &'static [&'static str] {
        &["C20"]
    }
    fn budget(&self, cfg: &Cfg) -> Budget {
        match cfg.tier {
            Tier::Quick => Budget { runs: 1_500_000, max_secs: 25.0 },
            Tier::Thorough => Budget { runs: 30_000_000, max_secs: 240.0 },
        }
    }
    fn generate(&self, rng: &mut Rng, _cfg: &Cfg) -> Case {
        match rng.below(5) {
            0 | 1 => {
                let n = rng.usize(9);
                let steps = (0..n)
                    .map(|_| {
                        let t = rng.below(4) as u8;
                        match rng.below(7) {
                            0 => WStep::Sudo(t),
                            1 => WStep::SudoEmpty(t),
                            2 => WStep::Reply(t),
                            3 => WStep::ReplyEmpty(t),
                            4 => WStep::Migrate(t),
                            5 => WStep::MigrateEmpty(t),
                            _ => WStep::Checksum(t),
                        }
                    })
                    .collect();
                Case::Wrapper { custom: rng.chance(1, 2), base_empty: rng.chance(1, 2), steps }
            }
            2 | 3 => {
                let n = rng.usize(13);
                let steps = (0..n)
                    .map(|_| match rng.below(14) {
                        0 | 1 => BStep::Api(rng.below(3) as u8),
                        2 | 3 => BStep::Storage(rng.below(4) as u8),
                        4 | 5 => BStep::Block(1 + rng.below(1000)),
                        6 => BStep::Wasm(rng.below(4) as u8),
                        7 => BStep::Bank,
                        8 => BStep::Custom,
                        9 => BStep::Staking,
                        10 => BStep::Distribution,
                        11 => BStep::Ibc,
                        12 => BStep::Gov,
                        _ => BStep::Stargate,
                    })
                    .collect();
                Case::Builder { steps }
            }
            _ => Case::Typed {
                order: rng.below(TYPED_ORDERS as u64) as u8,
                extra_at: (0..7).map(|_| if rng.chance(1, 2) { 0 } else { rng.below(8) as u8 }).collect(),
                block: 1 + rng.below(1000),
            },
        }
    }
    fn execute(&self, case: &Case) -> RunResult {
        let mut viol = vec![];
        let mut dig = Fnv::new();
        let mut stats = RunStats::default();
        let mut sig = Fnv::new();
        match case {
            Case::Wrapper { custom, base_empty, steps } => {
                if *custom {
                    check_wrapper::<SimMsg>(*base_empty, steps, &mut viol, &mut dig);
                } else {
                    check_wrapper::<Empty>(*base_empty, steps, &mut viol, &mut dig);
                }
                stats.steps = steps.len() as u64 + 1;
                sig.write_str(&format!("W{}{}{:?}", custom, base_empty, steps));
                stats.nontrivial = steps.len() >= 2;
            }
            Case::Builder { steps } => {
                check_builder(steps, &mut viol, &mut dig);
                stats.steps = steps.len() as u64 + 1;
                sig.write_str(&format!("B{:?}", steps));
                stats.nontrivial = steps.len() >= 2;
            }
            Case::Typed { order, extra_at, block } => {
                check_typed(*order, extra_at, *block, &mut viol, &mut dig);
                stats.steps = 8;
                sig.write_str(&format!("T{}{:?}", order, extra_at));
                stats.nontrivial = true;
            }
        }
        stats.signature = sig.finish();
        dig.write_u64(viol.len() as u64);
        stats.digest = dig.finish();
        RunResult { violations: viol, stats }
    }
    fn shrink(&self, case: &Case) -> Vec<Case> {
        let mut out = vec![];
        match case {
            Case::Wrapper { custom, base_empty, steps } => {
                for (s, e) in ddmin_drops(steps.len()) {
                    out.push(Case::Wrapper { custom: *custom, base_empty: *base_empty, steps: drop_range(steps, s, e) });
                }
                if *custom {
                    out.push(Case::Wrapper { custom: false, base_empty: *base_empty, steps: steps.clone() });
                }
                if *base_empty {
                    out.push(Case::Wrapper { custom: *custom, base_empty: false, steps: steps.clone() });
                }
            }
            Case::Builder { steps } => {
                for (s, e) in ddmin_drops(steps.len()) {
                    out.push(Case::Builder { steps: drop_range(steps, s, e) });
                }
            }
            Case::Typed { order, extra_at, block } => {
                for i in 0..extra_at.len() {
                    for bit in [1u8, 2, 4] {
                        if extra_at[i] & bit != 0 {
                            let mut b = extra_at.clone();
                            b[i] &= !bit;
                            out.push(Case::Typed { order: *order, extra_at: b, block: *block });
                        }
                    }
                }
            }
        }
        out
    }
    fn rule(&self) -> String {
        "one case = a seeded schedule of builder steps applied to one object: (a) ContractWrapper: up to 8 steps out of with_sudo / with_sudo_empty / with_reply / with_reply_empty / with_migrate / with_migrate_empty / with_checksum (4 distinguishable handlers each, repeats allowed; chain message type Empty or custom; base constructor new or new_with_empty), (b) AppBuilder: up to 12 steps out of all 11 with_* steps with components of the default types carrying distinguishable values (api prefix, pre-seeded storage marker, block, tagged address/checksum generators), any subset, any order, repeats, (c) AppBuilder with recording components of other types in one of 8 compiled orders with with_block / with_api / with_storage inserted at seeded positions. Oracle: the built object runs the last handler / holds the last component supplied per slot (defaults otherwise), init ran once against the supplied storage and api, transcript of a fixed probe workload equals that of the canonical order of the same subset. Non-trivial = at least two steps. Distinct = the schedule itself. No faults and no clock are involved in this property; the schedule is the only thing varied.".to_string()
    }
    fn assumptions(&self, _cfg: &Cfg) -> Vec<String> {
        vec![
            "slots whose replacement necessarily changes the builder's type are forced through by Rust's type system; they are exercised in 8 compiled orders rather than in run-time chosen orders".into(),
            "cosmwasm_std mock_dependencies / MockApi / MockStorage are trusted".into(),
        ]
    }
    fn components(&self) -> serde_json::Value {
        json!({"real": ["AppBuilder (all with_* steps, build)", "ContractWrapper (new, new_with_empty, all with_* steps, Contract impl)", "App", "WasmKeeper::with_address_generator / with_checksum_generator"], "stub": ["tagged handlers and generators", "recording module shims"], "model": ["last-step-wins table"]})
    }
}
