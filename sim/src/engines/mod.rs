pub mod chaingen;
pub mod chainsim;
pub mod kv06;
pub mod pfx07;
pub mod stakesim;
pub mod buildsim;
pub mod twin;
