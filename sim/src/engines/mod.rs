pub mod kv06;
pub mod pfx07;
