//! The scripted contract. One implementation of the script interpreter (`run_node`), three
//! ways of packaging it: `impl Contract` directly, the repo's `ContractWrapper::new`, and the
//! repo's `ContractWrapper::new_with_empty` (Empty-typed entry points lifted by the wrapper).

use crate::ops::*;
use crate::resolve::*;
use crate::storage::hex;
use crate::world::*;
use cosmwasm_std::{
    Attribute, Binary, Checksum, Coin, Deps, DepsMut, Empty, Env, Event, GrpcQuery, IbcQuery,
    MessageInfo, Order, QuerierWrapper, QueryRequest, Reply, ReplyOn, Response,
    StdError, StdResult, Storage, SubMsg, SubMsgResult,
};
use cw_multi_test::error::AnyResult;
use cw_multi_test::{Contract, ContractWrapper};
use serde::{Deserialize, Serialize};

#[derive(Serialize, Deserialize, Clone, Debug, PartialEq)]
pub struct SmartQ {
    pub keys: Vec<Bytes>,
    #[serde(default)]
    pub scan: bool,
    /// further contracts to forward the query to (nested smart queries)
    #[serde(default)]
    pub chain: Vec<String>,
}

pub fn smart_answer(addr: &str, height: u64, vals: &[Option<Vec<u8>>]) -> String {
    let v: Vec<String> = vals
        .iter()
        .map(|x| match x {
            Some(b) => hex(b),
            None => "none".to_string(),
        })
        .collect();
    format!("{}@{}:{}", addr, height, v.join(","))
}

fn run_query_entry<Q: MakeCustomQuery>(storage: &dyn Storage, querier: &QuerierWrapper<Q>, env: &Env, q: &SmartQ) -> Binary {
    let vals: Vec<Option<Vec<u8>>> = q.keys.iter().map(|k| storage.get(k)).collect();
    let mut s = smart_answer(env.contract.address.as_str(), env.block.height, &vals);
    if q.scan {
        let recs: Vec<_> = storage.range(None, None, Order::Ascending).collect();
        s.push_str("|scan:");
        s.push_str(&fmt_range(&recs));
        // the keys-only and values-only iterations (what Map::keys and friends use), in the other order
        let keys: Vec<Vec<u8>> = storage.range_keys(None, None, Order::Descending).collect();
        let vals: Vec<Vec<u8>> = storage.range_values(None, None, Order::Descending).collect();
        s.push_str("|keys:");
        s.push_str(&keys.iter().map(|k| hex(k)).collect::<Vec<_>>().join(","));
        s.push_str("|vals:");
        s.push_str(&vals.iter().map(|k| hex(k)).collect::<Vec<_>>().join(","));
    }
    if let Some(next) = q.chain.first() {
        let rest = SmartQ { keys: q.keys.clone(), scan: q.scan, chain: q.chain[1..].to_vec() };
        match querier.query_wasm_smart::<String>(next.clone(), &rest) {
            Ok(a) => {
                s.push_str("->");
                s.push_str(&a);
            }
            Err(_) => s.push_str("->ERR"),
        }
    }
    Binary::new(serde_json::to_vec(&s).unwrap())
}

fn fmt_range(r: &[(Vec<u8>, Vec<u8>)]) -> String {
    r.iter().map(|(k, v)| format!("{}={}", hex(k), hex(v))).collect::<Vec<_>>().join(",")
}

pub fn fmt_coins_sorted(cs: &[Coin]) -> String {
    cs.iter().map(|c| format!("{}{}", c.amount, c.denom)).collect::<Vec<_>>().join(",")
}

pub fn answer_query_pub<Q: MakeCustomQuery>(names: &Names, self_addr: &str, querier: &QuerierWrapper<Q>, q: &QueryOp) -> String {
    answer_query(names, self_addr, querier, q)
}

#[allow(deprecated)]
fn answer_query<Q: MakeCustomQuery>(
    names: &Names,
    self_addr: &str,
    querier: &QuerierWrapper<Q>,
    q: &QueryOp,
) -> String {
    fn r<T>(x: StdResult<T>, f: impl FnOnce(T) -> String) -> String {
        match x {
            Ok(v) => f(v),
            Err(_) => "ERR".to_string(),
        }
    }
    match q {
        QueryOp::Balance { who, denom } => {
            let a = names.target(who, self_addr);
            r(querier.query_balance(a, names.denom(*denom)), |c| format!("{}{}", c.amount, c.denom))
        }
        QueryOp::AllBalances { who } => {
            let a = names.target(who, self_addr);
            r(querier.query_all_balances(a), |cs| fmt_coins_sorted(&cs))
        }
        QueryOp::Supply { denom } => r(querier.query_supply(names.denom(*denom)), |c| format!("{}{}", c.amount, c.denom)),
        QueryOp::DenomMeta { denom } => r(querier.query_denom_metadata(names.denom(*denom)), |m| m.name),
        QueryOp::AllDenomMeta => r(querier.query_all_denom_metadata(cosmwasm_std::PageRequest { key: None, limit: 1000, reverse: false }), |m| {
            m.metadata.iter().map(|x| x.name.clone()).collect::<Vec<_>>().join(",")
        }),
        QueryOp::Raw { contract, key } => {
            let a = names.target(contract, self_addr);
            r(querier.query_wasm_raw(a, names.key(key)), |v| match v {
                Some(b) => hex(&b),
                None => "none".to_string(),
            })
        }
        QueryOp::Smart { contract, keys, scan, chain } => {
            let a = names.target(contract, self_addr);
            let chain: Vec<String> = chain.iter().map(|t| names.target(t, self_addr)).collect();
            r(querier.query_wasm_smart::<String>(a, &SmartQ { keys: keys.clone(), scan: *scan, chain }), |s| s)
        }
        QueryOp::ContractInfo { contract } => {
            let a = names.target(contract, self_addr);
            r(querier.query_wasm_contract_info(a), |i| {
                format!("{}|{}|{}", i.code_id, i.creator, i.admin.map(|a| a.to_string()).unwrap_or_else(|| "-".into()))
            })
        }
        QueryOp::CodeInfo { code } => r(querier.query_wasm_code_info(names.code_id(*code)), |i| {
            format!("{}|{}|{}", i.code_id, i.creator, i.checksum.to_hex())
        }),
        QueryOp::Custom { tag } => match Q::custom(tag) {
            None => "SKIP".to_string(),
            Some(c) => raw_answer(querier, &QueryRequest::<Q>::Custom(c)),
        },
        QueryOp::Delegation { who, val } => {
            let a = names.target(who, self_addr);
            r(querier.query_delegation(a, names.validator(*val)), |d| match d {
                None => "none".to_string(),
                Some(d) => format!("{}{}|{}", d.amount.amount, d.amount.denom, fmt_coins_sorted(&d.accumulated_rewards)),
            })
        }
        QueryOp::AllDelegations { who } => {
            let a = names.target(who, self_addr);
            r(querier.query_all_delegations(a), |ds| {
                ds.iter().map(|d| format!("{}:{}{}", d.validator, d.amount.amount, d.amount.denom)).collect::<Vec<_>>().join(",")
            })
        }
        QueryOp::BondedDenom => r(querier.query_bonded_denom(), |s| s),
        QueryOp::AllValidators => r(querier.query_all_validators(), |vs| {
            vs.iter().map(|v| v.address.clone()).collect::<Vec<_>>().join(",")
        }),
        QueryOp::Validator { val } => r(querier.query_validator(names.validator(*val)), |v| match v {
            Some(v) => v.address,
            None => "none".to_string(),
        }),
        QueryOp::Ibc { tag } => raw_answer(querier, &QueryRequest::<Q>::Ibc(IbcQuery::Channel { channel_id: tag.clone(), port_id: None })),
        QueryOp::Stargate { tag } => raw_answer(querier, &QueryRequest::<Q>::Stargate { path: tag.clone(), data: Binary::default() }),
        QueryOp::Grpc { tag } => raw_answer(querier, &QueryRequest::<Q>::Grpc(GrpcQuery { path: tag.clone(), data: Binary::default() })),
    }
}

/// Module queries are compared as raw bytes (the repo's accepting modules answer with empty data).
fn raw_answer<Q: MakeCustomQuery>(querier: &QuerierWrapper<Q>, req: &QueryRequest<Q>) -> String {
    let bin = match cosmwasm_std::to_json_vec(req) {
        Ok(b) => b,
        Err(_) => return "ERR".to_string(),
    };
    match querier.raw_query(&bin) {
        cosmwasm_std::SystemResult::Ok(cosmwasm_std::ContractResult::Ok(b)) => hex(b.as_slice()),
        _ => "ERR".to_string(),
    }
}

pub fn reply_on_of(x: u8) -> ReplyOn {
    match x % 4 {
        0 => ReplyOn::Never,
        1 => ReplyOn::Success,
        2 => ReplyOn::Error,
        _ => ReplyOn::Always,
    }
}

/// The script interpreter shared by all three packagings.
#[allow(clippy::too_many_arguments)]
pub fn run_node<C: MakeCustom, Q: MakeCustomQuery>(
    world: &World,
    code_tag: u32,
    kind: &str,
    storage: &mut dyn Storage,
    querier: QuerierWrapper<Q>,
    env: &Env,
    sender: String,
    funds: Vec<Coin>,
    node: &Node,
    reply: Option<ReplyInfo>,
) -> Result<Response<C>, StdError> {
    if node.empty_msg && reply.is_none() {
        // (reached only through transports that serialise the script themselves: behave like the
        // undecodable zero-length body)
        return Err(StdError::generic_err("undecodable message"));
    }
    let self_addr = env.contract.address.to_string();
    // bind the contract slot as soon as the instantiate entry point runs
    if kind == "instantiate" {
        if let Some(slot) = node.bind {
            world.0.borrow_mut().names.slots.insert(slot, self_addr.clone());
        }
    }
    let names = world.0.borrow().names.clone();

    // 1. scripted queries, 2. scripted reads of own storage
    let queries: Vec<String> = node.queries.iter().map(|q| answer_query(&names, &self_addr, &querier, q)).collect();
    let do_read = |storage: &dyn Storage, r: &ReadOp| -> String {
        match r {
            ReadOp::Get(k) => match storage.get(&names.key(k)) {
                Some(v) => hex(&v),
                None => "none".to_string(),
            },
            ReadOp::Range { start, end, desc } => {
                let order = if *desc { Order::Descending } else { Order::Ascending };
                let recs: Vec<_> = storage.range(start.as_deref(), end.as_deref(), order).collect();
                fmt_range(&recs)
            }
            ReadOp::Keys { start, end, desc } => {
                let order = if *desc { Order::Descending } else { Order::Ascending };
                storage.range_keys(start.as_deref(), end.as_deref(), order).map(|k| hex(&k)).collect::<Vec<_>>().join(",")
            }
            ReadOp::Values { start, end, desc } => {
                let order = if *desc { Order::Descending } else { Order::Ascending };
                storage.range_values(start.as_deref(), end.as_deref(), order).map(|k| hex(&k)).collect::<Vec<_>>().join(",")
            }
        }
    };
    let reads: Vec<String> = node.reads.iter().map(|r| do_read(&*storage, r)).collect();

    // 3. scripted writes, then reads through the same view (what the contract itself reads back)
    for w in &node.writes {
        match w {
            WriteOp::Set { k, v } => storage.set(&names.key(k), v),
            WriteOp::Remove { k } => storage.remove(&names.key(k)),
            WriteOp::Bulk { tag, n, salt } => {
                for i in 0..*n {
                    storage.set(&crate::ops::bulk_key(*tag, i), &[*tag, (i >> 8) as u8, i as u8, 1, *salt]);
                }
            }
            WriteOp::Hammer { k, n } => {
                let key = names.key(k);
                for i in 0..*n {
                    storage.set(&key, format!("h{}", i).as_bytes());
                }
            }
            WriteOp::BulkRemove { tag, n } => {
                for i in 0..*n {
                    storage.remove(&crate::ops::bulk_key(*tag, i));
                }
            }
            WriteOp::Restore { k, rewrite_only } => {
                let key = names.key(k);
                let cur = storage.get(&key);
                if !rewrite_only {
                    storage.remove(&key);
                }
                if let Some(cur) = cur {
                    storage.set(&key, &cur);
                }
            }
        }
    }
    let post_reads: Vec<String> = node.post_reads.iter().map(|r| do_read(&*storage, r)).collect();

    // 4. invocation record (out of band: survives any rollback)
    world.0.borrow_mut().trace.push(TraceRec {
        kind: kind.to_string(),
        code_tag,
        contract: self_addr.clone(),
        height: env.block.height,
        time_nanos: env.block.time.nanos(),
        chain_id: env.block.chain_id.clone(),
        sender,
        funds: funds.iter().map(|c| (c.denom.clone(), c.amount.u128())).collect(),
        nid: node.nid,
        reply: reply.clone(),
        queries,
        reads,
        post_reads,
    });

    // 5. the injected faults: a crash (panic), or a body error, after the writes
    if node.panic {
        *world.0.borrow_mut().faults_fired.entry(format!("{}_body_panic", kind)).or_insert(0) += 1;
        panic!("scripted contract panic");
    }
    if node.fail {
        *world.0.borrow_mut().faults_fired.entry(format!("{}_body_err", kind)).or_insert(0) += 1;
        return Err(StdError::generic_err("scripted failure"));
    }

    // 6. response
    let mut resp = Response::<C>::new();
    for (k, v) in &node.attrs {
        resp.attributes.push(Attribute { key: k.clone(), value: v.clone() });
    }
    for e in &node.events {
        let mut ev = Event::new(e.ty.clone());
        for (k, v) in &e.attrs {
            ev.attributes.push(Attribute { key: k.clone(), value: v.clone() });
        }
        resp.events.push(ev);
    }
    let echoed = if node.echo_reply_data { reply.as_ref().filter(|r| r.ok).and_then(|r| r.data.clone()) } else { None };
    resp.data = echoed.or_else(|| node.data.clone()).map(Binary::new);
    let balance = |denom: &str| -> u128 {
        world.0.borrow_mut().rec_suspended = true;
        let b = querier.query_balance(self_addr.clone(), denom).map(|c| c.amount.u128()).unwrap_or(0);
        world.0.borrow_mut().rec_suspended = false;
        b
    };
    for s in &node.subs {
        let cm = resolve_msg(&names, &s.msg, &self_addr, &balance);
        let msg = match to_cosmos::<C>(&cm) {
            Some(m) => m,
            None => continue,
        };
        if let Some(rn) = &s.reply {
            world
                .0
                .borrow_mut()
                .reply_plans
                .entry((self_addr.clone(), s.id))
                .or_default()
                .push_back((**rn).clone());
        }
        resp.messages.push(SubMsg {
            id: s.id,
            payload: Binary::new(s.payload.clone()),
            msg,
            gas_limit: None,
            reply_on: reply_on_of(s.reply_on),
        });
    }
    Ok(resp)
}

fn reply_info(r: &Reply) -> ReplyInfo {
    #[allow(deprecated)]
    match &r.result {
        SubMsgResult::Ok(resp) => ReplyInfo {
            id: r.id,
            payload: r.payload.to_vec(),
            ok: true,
            events: resp
                .events
                .iter()
                .map(|e| Ev { ty: e.ty.clone(), attrs: e.attributes.iter().map(|a| (a.key.clone(), a.value.clone())).collect() })
                .collect(),
            data: resp.data.as_ref().map(|d| d.to_vec()),
        },
        SubMsgResult::Err(_) => ReplyInfo { id: r.id, payload: r.payload.to_vec(), ok: false, events: vec![], data: None },
    }
}

fn reply_node(world: &World, contract: &str, id: u64) -> Node {
    let mut w = world.0.borrow_mut();
    match w.reply_plans.get_mut(&(contract.to_string(), id)) {
        Some(q) => q.pop_front().unwrap_or_default(),
        None => Node::default(),
    }
}

fn parse_node(msg: &[u8]) -> AnyResult<Node> {
    Ok(serde_json::from_slice(msg)?)
}

// ---------------------------------------------------------------- packaging 1: impl Contract

pub struct SimContract {
    pub tag: u32,
    pub world: World,
    pub checksum: Option<Checksum>,
}

impl Contract<SimMsg, SimQuery> for SimContract {
    fn execute(&self, deps: DepsMut<SimQuery>, env: Env, info: MessageInfo, msg: Vec<u8>) -> AnyResult<Response<SimMsg>> {
        let node = parse_node(&msg)?;
        Ok(run_node(&self.world, self.tag, "execute", deps.storage, deps.querier, &env, info.sender.to_string(), info.funds, &node, None)?)
    }
    fn instantiate(&self, deps: DepsMut<SimQuery>, env: Env, info: MessageInfo, msg: Vec<u8>) -> AnyResult<Response<SimMsg>> {
        let node = parse_node(&msg)?;
        Ok(run_node(&self.world, self.tag, "instantiate", deps.storage, deps.querier, &env, info.sender.to_string(), info.funds, &node, None)?)
    }
    fn query(&self, deps: Deps<SimQuery>, env: Env, msg: Vec<u8>) -> AnyResult<Binary> {
        let q: SmartQ = serde_json::from_slice(&msg)?;
        self.world.0.borrow_mut().query_calls += 1;
        Ok(run_query_entry(deps.storage, &deps.querier, &env, &q))
    }
    fn sudo(&self, deps: DepsMut<SimQuery>, env: Env, msg: Vec<u8>) -> AnyResult<Response<SimMsg>> {
        let node = parse_node(&msg)?;
        Ok(run_node(&self.world, self.tag, "sudo", deps.storage, deps.querier, &env, String::new(), vec![], &node, None)?)
    }
    fn reply(&self, deps: DepsMut<SimQuery>, env: Env, msg: Reply) -> AnyResult<Response<SimMsg>> {
        let node = reply_node(&self.world, env.contract.address.as_str(), msg.id);
        let info = reply_info(&msg);
        Ok(run_node(&self.world, self.tag, "reply", deps.storage, deps.querier, &env, String::new(), vec![], &node, Some(info))?)
    }
    fn migrate(&self, deps: DepsMut<SimQuery>, env: Env, msg: Vec<u8>) -> AnyResult<Response<SimMsg>> {
        let node = parse_node(&msg)?;
        Ok(run_node(&self.world, self.tag, "migrate", deps.storage, deps.querier, &env, String::new(), vec![], &node, None)?)
    }
    fn checksum(&self) -> Option<Checksum> {
        self.checksum
    }
}

// ------------------------------------------- packaging 2 and 3: the repo's ContractWrapper
// Function pointers cannot capture state: the world comes from a thread-local, the code tag
// from a const generic.

fn g_exec<C: MakeCustom, Q: MakeCustomQuery, const TAG: u32>(deps: DepsMut<Q>, env: Env, info: MessageInfo, node: Node) -> Result<Response<C>, StdError> {
    run_node(&current_world(), TAG, "execute", deps.storage, deps.querier, &env, info.sender.to_string(), info.funds, &node, None)
}
fn g_inst<C: MakeCustom, Q: MakeCustomQuery, const TAG: u32>(deps: DepsMut<Q>, env: Env, info: MessageInfo, node: Node) -> Result<Response<C>, StdError> {
    run_node(&current_world(), TAG, "instantiate", deps.storage, deps.querier, &env, info.sender.to_string(), info.funds, &node, None)
}
fn g_query<Q: MakeCustomQuery, const TAG: u32>(deps: Deps<Q>, env: Env, q: SmartQ) -> Result<Binary, StdError> {
    current_world().0.borrow_mut().query_calls += 1;
    Ok(run_query_entry(deps.storage, &deps.querier, &env, &q))
}
fn g_sudo<C: MakeCustom, Q: MakeCustomQuery, const TAG: u32>(deps: DepsMut<Q>, env: Env, node: Node) -> Result<Response<C>, StdError> {
    run_node(&current_world(), TAG, "sudo", deps.storage, deps.querier, &env, String::new(), vec![], &node, None)
}
fn g_migrate<C: MakeCustom, Q: MakeCustomQuery, const TAG: u32>(deps: DepsMut<Q>, env: Env, node: Node) -> Result<Response<C>, StdError> {
    run_node(&current_world(), TAG, "migrate", deps.storage, deps.querier, &env, String::new(), vec![], &node, None)
}
fn g_reply<C: MakeCustom, Q: MakeCustomQuery, const TAG: u32>(deps: DepsMut<Q>, env: Env, msg: Reply) -> Result<Response<C>, StdError> {
    let w = current_world();
    let node = reply_node(&w, env.contract.address.as_str(), msg.id);
    let info = reply_info(&msg);
    run_node(&w, TAG, "reply", deps.storage, deps.querier, &env, String::new(), vec![], &node, Some(info))
}

fn wrapped<const TAG: u32>(checksum: Option<Checksum>) -> Box<dyn Contract<SimMsg, SimQuery>> {
    let w = ContractWrapper::new(g_exec::<SimMsg, SimQuery, TAG>, g_inst::<SimMsg, SimQuery, TAG>, g_query::<SimQuery, TAG>)
        .with_sudo(g_sudo::<SimMsg, SimQuery, TAG>)
        .with_reply(g_reply::<SimMsg, SimQuery, TAG>)
        .with_migrate(g_migrate::<SimMsg, SimQuery, TAG>);
    match checksum {
        Some(c) => Box::new(w.with_checksum(c)),
        None => Box::new(w),
    }
}

fn wrapped_empty<const TAG: u32>(checksum: Option<Checksum>) -> Box<dyn Contract<SimMsg, SimQuery>> {
    let w = ContractWrapper::new_with_empty(g_exec::<Empty, Empty, TAG>, g_inst::<Empty, Empty, TAG>, g_query::<Empty, TAG>)
        .with_sudo_empty(g_sudo::<Empty, Empty, TAG>)
        .with_reply_empty(g_reply::<Empty, Empty, TAG>)
        .with_migrate_empty(g_migrate::<Empty, Empty, TAG>);
    match checksum {
        Some(c) => Box::new(w.with_checksum(c)),
        None => Box::new(w),
    }
}

fn wrapped_bare<const TAG: u32>(checksum: Option<Checksum>) -> Box<dyn Contract<SimMsg, SimQuery>> {
    let w = ContractWrapper::new(g_exec::<SimMsg, SimQuery, TAG>, g_inst::<SimMsg, SimQuery, TAG>, g_query::<SimQuery, TAG>);
    match checksum {
        Some(c) => Box::new(w.with_checksum(c)),
        None => Box::new(w),
    }
}

pub const MAX_WRAPPED_TAG: u32 = 15;

macro_rules! by_tag {
    ($f:ident, $tag:expr, $cs:expr) => {
        match $tag {
            0 => $f::<0>($cs),
            1 => $f::<1>($cs),
            2 => $f::<2>($cs),
            3 => $f::<3>($cs),
            4 => $f::<4>($cs),
            5 => $f::<5>($cs),
            6 => $f::<6>($cs),
            7 => $f::<7>($cs),
            8 => $f::<8>($cs),
            9 => $f::<9>($cs),
            10 => $f::<10>($cs),
            11 => $f::<11>($cs),
            12 => $f::<12>($cs),
            13 => $f::<13>($cs),
            14 => $f::<14>($cs),
            _ => $f::<15>($cs),
        }
    };
}

pub fn checksum_of(b: u8) -> Checksum {
    // boundary value: the all-zero digest is a checksum like any other
    if b == 2 {
        return Checksum::from([0u8; 32]);
    }
    Checksum::generate(&[b, b, b])
}

/// Builds the code for a store operation. Tags above MAX_WRAPPED_TAG fall back to the direct
/// packaging (const generics are finite).
pub fn make_code(kind: CodeKind, tag: u32, world: &World, with_checksum: Option<u8>) -> Box<dyn Contract<SimMsg, SimQuery>> {
    let cs = with_checksum.map(checksum_of);
    match kind {
        CodeKind::Wrapped if tag <= MAX_WRAPPED_TAG => by_tag!(wrapped, tag, cs),
        CodeKind::WrappedEmpty if tag <= MAX_WRAPPED_TAG => by_tag!(wrapped_empty, tag, cs),
        CodeKind::WrappedBare if tag <= MAX_WRAPPED_TAG => by_tag!(wrapped_bare, tag, cs),
        _ => Box::new(SimContract { tag, world: world.clone(), checksum: cs }),
    }
}

pub fn effective_kind(kind: CodeKind, tag: u32) -> CodeKind {
    match kind {
        CodeKind::Wrapped | CodeKind::WrappedEmpty | CodeKind::WrappedBare if tag > MAX_WRAPPED_TAG => CodeKind::Direct,
        k => k,
    }
}

/// Adversarial address generator (plugged in through WasmKeeper::with_address_generator in a share
/// of the runs): instantiations come in groups of four that share one canonical address — the
/// first gets the lower-case bech32 string, the second the very same string in upper case (a
/// different address that differs only in letter case), the third the first string with its last
/// byte incremented, the fourth (for odd code ids) the first one's address again, which must be
/// rejected as a duplicate (for even code ids a fresh address of 200 canonical bytes). Salted addresses stay the default.
pub struct AdvAddrGen;

/// Checksum generator whose result depends on the creator as well as on the code id (the trait gives
/// it both): two chains that store codes under the same ids get different checksums.
pub struct CreatorChecksums;

impl cw_multi_test::ChecksumGenerator for CreatorChecksums {
    fn checksum(&self, creator: &cosmwasm_std::Addr, code_id: u64) -> Checksum {
        use sha2::{Digest, Sha256};
        let d: [u8; 32] = Sha256::digest(format!("creator-checksum/{}/{}", creator, code_id).as_bytes()).into();
        Checksum::from(d)
    }
}

pub fn adv_address(api: &dyn cosmwasm_std::Api, code_id: u64, instance_id: u64) -> AnyResult<cosmwasm_std::Addr> {
    use sha2::{Digest, Sha256};
    let group = instance_id / 4;
    let canon = |tag: &str, n: u64| -> Vec<u8> { Sha256::digest(format!("{}-{}", tag, n).as_bytes()).to_vec() };
    let base = api.addr_humanize(&cosmwasm_std::CanonicalAddr::from(canon("adversarial", group)))?;
    Ok(match instance_id % 4 {
        0 => base,
        1 => cosmwasm_std::Addr::unchecked(base.as_str().to_uppercase()),
        2 => {
            // the "successor" of the first address: same bytes, last one incremented (the raw prefix of
            // its storage namespace is exactly the exclusive end of the first one's)
            let mut b = base.as_str().as_bytes().to_vec();
            if let Some(l) = b.last_mut() {
                *l += 1;
            }
            cosmwasm_std::Addr::unchecked(String::from_utf8_lossy(&b).to_string())
        }
        _ => {
            if code_id % 2 == 1 {
                base
            } else {
                // a fresh, valid and very long address (200 canonical bytes, more than 255 bytes of storage namespace)
                let mut long = vec![];
                for i in 0..7u64 {
                    long.extend_from_slice(&canon("fresh-long", instance_id * 8 + i));
                }
                long.truncate(200);
                api.addr_humanize(&cosmwasm_std::CanonicalAddr::from(long))?
            }
        }
    })
}

impl cw_multi_test::AddressGenerator for AdvAddrGen {
    fn contract_address(&self, api: &dyn cosmwasm_std::Api, _storage: &mut dyn Storage, code_id: u64, instance_id: u64) -> AnyResult<cosmwasm_std::Addr> {
        adv_address(api, code_id, instance_id)
    }
}


/// The address codec of a run: the repo's bech32 mock with a per-run prefix (most runs), or cosmwasm-std's
/// own `MockApi` — what `App::default()` uses, and so what most tests of contracts run with.
pub enum SimApi {
    Bech32(cw_multi_test::MockApiBech32),
    Std(cosmwasm_std::testing::MockApi),
}

impl SimApi {
    pub fn new(prefix: &'static str, std_api: bool) -> Self {
        if std_api {
            SimApi::Std(cosmwasm_std::testing::MockApi::default().with_prefix(prefix))
        } else {
            SimApi::Bech32(cw_multi_test::MockApiBech32::new(prefix))
        }
    }
    pub fn addr_make(&self, input: &str) -> cosmwasm_std::Addr {
        match self {
            SimApi::Bech32(a) => a.addr_make(input),
            SimApi::Std(a) => a.addr_make(input),
        }
    }
    fn inner(&self) -> &dyn cosmwasm_std::Api {
        match self {
            SimApi::Bech32(a) => a,
            SimApi::Std(a) => a,
        }
    }
}

impl cosmwasm_std::Api for SimApi {
    fn addr_validate(&self, human: &str) -> cosmwasm_std::StdResult<cosmwasm_std::Addr> {
        self.inner().addr_validate(human)
    }
    fn addr_canonicalize(&self, human: &str) -> cosmwasm_std::StdResult<cosmwasm_std::CanonicalAddr> {
        self.inner().addr_canonicalize(human)
    }
    fn addr_humanize(&self, canonical: &cosmwasm_std::CanonicalAddr) -> cosmwasm_std::StdResult<cosmwasm_std::Addr> {
        self.inner().addr_humanize(canonical)
    }
    fn secp256k1_verify(&self, message_hash: &[u8], signature: &[u8], public_key: &[u8]) -> Result<bool, cosmwasm_std::VerificationError> {
        self.inner().secp256k1_verify(message_hash, signature, public_key)
    }
    fn secp256k1_recover_pubkey(&self, message_hash: &[u8], signature: &[u8], recovery_param: u8) -> Result<Vec<u8>, cosmwasm_std::RecoverPubkeyError> {
        self.inner().secp256k1_recover_pubkey(message_hash, signature, recovery_param)
    }
    fn ed25519_verify(&self, message: &[u8], signature: &[u8], public_key: &[u8]) -> Result<bool, cosmwasm_std::VerificationError> {
        self.inner().ed25519_verify(message, signature, public_key)
    }
    fn ed25519_batch_verify(&self, messages: &[&[u8]], signatures: &[&[u8]], public_keys: &[&[u8]]) -> Result<bool, cosmwasm_std::VerificationError> {
        self.inner().ed25519_batch_verify(messages, signatures, public_keys)
    }
    fn debug(&self, message: &str) {
        self.inner().debug(message)
    }
}
