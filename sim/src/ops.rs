//! The operation language of chainsim: explicit, total, replayable.
//! Everything refers to accounts, contracts, codes, validators and denominations by slot
//! index; a slot that does not (yet / any more) exist resolves to a well-formed ghost value,
//! so every operation is meaningful in every state (which makes delta debugging safe).
//! Only serde features supported by serde-json-wasm are used (the repo's ContractWrapper
//! decodes messages with it).

use serde::{Deserialize, Serialize};

pub type Bytes = Vec<u8>;

#[derive(Clone, Debug, Serialize, Deserialize, PartialEq, Eq, Default)]
pub struct Node {
    pub nid: u32,
    /// contract slot bound to the callee's address when this node runs as `instantiate`
    pub bind: Option<u32>,
    pub reads: Vec<ReadOp>,
    pub queries: Vec<QueryOp>,
    pub writes: Vec<WriteOp>,
    /// reads of the contract's own storage issued after the writes of this call, through the same
    /// storage view (what the contract itself reads back)
    #[serde(default)]
    pub post_reads: Vec<ReadOp>,
    /// fault flag: the body returns Err after its writes
    pub fail: bool,
    pub attrs: Vec<(String, String)>,
    pub events: Vec<EvSpec>,
    pub data: Option<Bytes>,
    /// (reply handlers) hand the data found in the Reply on unchanged instead of `data`, when there is any
    #[serde(default)]
    pub echo_reply_data: bool,
    /// the message that carries this script is sent with a zero-length body (where the transport allows):
    /// no entry point can decode it, the call fails before any contract code runs
    #[serde(default)]
    pub empty_msg: bool,
    /// fault flag: the body PANICS after its writes (a crash inside contract code: nothing catches it, the
    /// whole call unwinds; the chain must be exactly as before and stay usable)
    #[serde(default)]
    pub panic: bool,
    pub subs: Vec<Sub>,
}

#[derive(Clone, Debug, Serialize, Deserialize, PartialEq, Eq)]
pub struct EvSpec {
    pub ty: String,
    pub attrs: Vec<(String, String)>,
}

#[derive(Clone, Debug, Serialize, Deserialize, PartialEq, Eq)]
pub enum KeySpec {
    Lit(Bytes),
    /// suffix (from byte `cut`) of the idx-th raw root key as it was before the current step:
    /// a key crafted to look like another module's or contract's raw prefix
    RootSuffix { idx: u32, cut: u32 },
    /// `len` times the byte `byte` (keys of 65535 .. 70000 bytes)
    Long { byte: u8, len: u32 },
}

#[derive(Clone, Debug, Serialize, Deserialize, PartialEq, Eq)]
pub enum ReadOp {
    Get(KeySpec),
    Range { start: Option<Bytes>, end: Option<Bytes>, desc: bool },
    /// Storage::range_keys / Storage::range_values (separately overridable trait methods)
    Keys { start: Option<Bytes>, end: Option<Bytes>, desc: bool },
    Values { start: Option<Bytes>, end: Option<Bytes>, desc: bool },
}

#[derive(Clone, Debug, Serialize, Deserialize, PartialEq, Eq)]
pub enum WriteOp {
    Set { k: KeySpec, v: Bytes },
    Remove { k: KeySpec },
    /// read the value, remove the key and write the very same value back (a net no-op made of
    /// three operations); `rewrite_only`: just write the current value again
    Restore { k: KeySpec, rewrite_only: bool },
    /// `n` keys "bulk/<tag>/<i>" (big-endian i) set in one go: contracts with many entries
    Bulk {
        tag: u8,
        n: u16,
        /// goes into every value, so that a second bulk write of the same keys changes them
        #[serde(default)]
        salt: u8,
    },
    /// the same keys removed again
    BulkRemove { tag: u8, n: u16 },
    /// one key written `n` times in a row with different values (many log entries, few keys)
    Hammer { k: KeySpec, n: u16 },
}

pub fn bulk_key(tag: u8, i: u16) -> Vec<u8> {
    let mut k = b"bulk/".to_vec();
    k.push(tag);
    k.push(b'/');
    k.extend_from_slice(&i.to_be_bytes());
    k
}

#[derive(Clone, Debug, Serialize, Deserialize, PartialEq, Eq)]
pub enum Target {
    Account(u32),
    Contract(u32),
    Ghost(u32),
    Invalid,
    SelfAddr,
    /// the address the next plain instantiation will get (predicted before the step): a "future" contract
    Next,
}

#[derive(Clone, Debug, Serialize, Deserialize, PartialEq, Eq)]
pub enum QueryOp {
    Balance { who: Target, denom: u32 },
    AllBalances { who: Target },
    Supply { denom: u32 },
    DenomMeta { denom: u32 },
    AllDenomMeta,
    Raw { contract: Target, key: KeySpec },
    /// smart query: values of `keys`, optionally a full scan of the callee's storage, optionally
    /// forwarded along a chain of further contracts (nested queries)
    Smart {
        contract: Target,
        keys: Vec<Bytes>,
        #[serde(default)]
        scan: bool,
        #[serde(default)]
        chain: Vec<Target>,
    },
    ContractInfo { contract: Target },
    CodeInfo { code: u32 },
    Custom { tag: String },
    Delegation { who: Target, val: u32 },
    AllDelegations { who: Target },
    BondedDenom,
    AllValidators,
    Validator { val: u32 },
    Ibc { tag: String },
    Stargate { tag: String },
    Grpc { tag: String },
}

#[derive(Clone, Debug, Serialize, Deserialize, PartialEq, Eq)]
pub enum Amt {
    Abs(u64),
    /// the sender's whole balance of the denomination at the moment the message is built
    All,
    /// balance + n (an overdraft)
    AllPlus(u64),
    Half,
    Zero,
}

#[derive(Clone, Debug, Serialize, Deserialize, PartialEq, Eq)]
pub struct CoinSpec {
    pub denom: u32,
    pub amt: Amt,
}

#[derive(Clone, Debug, Serialize, Deserialize, PartialEq, Eq)]
pub struct Sub {
    pub msg: MsgSpec,
    pub id: u64,
    /// 0 Never, 1 Success, 2 Error, 3 Always
    pub reply_on: u8,
    pub payload: Bytes,
    /// script of the reply handler, should it be invoked
    pub reply: Option<Box<Node>>,
}

#[derive(Clone, Debug, Serialize, Deserialize, PartialEq, Eq)]
pub enum MsgSpec {
    Exec { target: Target, node: Box<Node>, funds: Vec<CoinSpec> },
    Inst { code: u32, slot: u32, node: Box<Node>, funds: Vec<CoinSpec>, label: String, admin: Option<Target>, salt: Option<Bytes> },
    Migrate { target: Target, code: u32, node: Box<Node> },
    UpdateAdmin { target: Target, admin: Target },
    ClearAdmin { target: Target },
    Send { to: Target, coins: Vec<CoinSpec> },
    Burn { coins: Vec<CoinSpec> },
    Delegate { val: u32, coin: CoinSpec },
    Undelegate { val: u32, coin: CoinSpec },
    Redelegate { src: u32, dst: u32, coin: CoinSpec },
    SetWithdraw { to: Target },
    Withdraw { val: u32 },
    /// DistributionMsg::FundCommunityPool: the stock distribution module does not support it (it must fail there)
    FundPool { coins: Vec<CoinSpec> },
    Custom { tag: String },
    Ibc { tag: String },
    Gov { n: u64 },
    Stargate { tag: String, value: Bytes },
    Any { tag: String, value: Bytes },
}

/// How a code was built (which Contract implementation runs).
#[derive(Clone, Copy, Debug, Serialize, Deserialize, PartialEq, Eq)]
pub enum CodeKind {
    /// `impl Contract<SimMsg, SimQuery>` directly
    Direct,
    /// repo's ContractWrapper::new (chain's custom message type)
    Wrapped,
    /// repo's ContractWrapper::new_with_empty + with_*_empty (Empty-typed, lifted by the wrapper)
    WrappedEmpty,
    /// repo's ContractWrapper::new and nothing else: no sudo, reply or migrate entry point
    WrappedBare,
}

#[derive(Clone, Debug, Serialize, Deserialize, PartialEq, Eq)]
pub enum Op {
    StoreCode { kind: CodeKind, creator: u32, with_checksum: Option<u8> },
    StoreCodeWithId { kind: CodeKind, creator: u32, id: u64, with_checksum: Option<u8> },
    DuplicateCode { code: u32 },
    /// a code id that was never stored (0, or a ghost) used with duplicate_code
    DuplicateRaw { id: u64 },
    /// App::execute; `sweep`: additionally run the tree once per single fault site from the same snapshot
    Exec { sender: u32, msg: MsgSpec, sweep: bool },
    /// App::execute_multi
    Multi { sender: u32, msgs: Vec<MsgSpec> },
    /// App::wasm_sudo (via_router = false) or App::sudo(SudoMsg::Wasm)
    WasmSudo { target: Target, node: Node, via_router: bool },
    /// App::sudo(SudoMsg::Bank(Mint))
    Mint { to: Target, coins: Vec<CoinSpec> },
    /// mint with literal denominations and amounts given as (mantissa, shift): mantissa << shift
    /// (amounts near 2^127, or more than a hundred denominations)
    MintRaw { to: Target, coins: Vec<(String, u64, u8)> },
    /// BankKeeper::set_denom_metadata through App::init_modules
    SetDenomMeta { denom: u32, tag: u8 },
    /// Executor helpers
    HInstantiate { sender: u32, code: u32, slot: u32, node: Node, funds: Vec<CoinSpec>, label: String, admin: Option<Target>, salt: Option<Bytes> },
    HExecute { sender: u32, target: Target, node: Node, funds: Vec<CoinSpec> },
    HMigrate { sender: u32, target: Target, code: u32, node: Node },
    HSend { sender: u32, to: Target, coins: Vec<CoinSpec> },
    /// update_block (set = false) or set_block (set = true): advance height and time
    /// (`abs_h`: jump to an absolute height instead, e.g. 0 or u64::MAX; time never goes back)
    /// `dn`: additional nanoseconds; `chain`: change the chain id; `zero_time`: jump to time 0
    /// (only executed on chains without validators: staking needs non-decreasing time)
    Block {
        set: bool,
        dh: u64,
        dt: u64,
        #[serde(default)]
        abs_h: Option<u64>,
        #[serde(default)]
        dn: u32,
        #[serde(default)]
        chain: Option<u8>,
        #[serde(default)]
        zero_time: bool,
    },
    /// write through App::contract_storage_mut
    External { target: Target, k: Bytes, v: Option<Bytes> },
    /// App-level query battery (purity, repeatability, agreement with the model)
    Queries,
}

impl Node {
    /// All nodes of the tree in pre-order (body, then per sub: message node, reply node).
    pub fn count(&self) -> usize {
        let mut n = 1;
        for s in &self.subs {
            if let Some(c) = s.msg.node() {
                n += c.count();
            }
            if let Some(r) = &s.reply {
                n += r.count();
            }
        }
        n
    }

    pub fn visit_mut(&mut self, f: &mut dyn FnMut(&mut Node)) {
        f(self);
        for s in self.subs.iter_mut() {
            if let Some(c) = s.msg.node_mut() {
                c.visit_mut(f);
            }
            if let Some(r) = s.reply.as_mut() {
                r.visit_mut(f);
            }
        }
    }

    pub fn visit(&self, f: &mut dyn FnMut(&Node)) {
        f(self);
        for s in self.subs.iter() {
            if let Some(c) = s.msg.node() {
                c.visit(f);
            }
            if let Some(r) = s.reply.as_ref() {
                r.visit(f);
            }
        }
    }
}

impl MsgSpec {
    pub fn node(&self) -> Option<&Node> {
        match self {
            MsgSpec::Exec { node, .. } | MsgSpec::Inst { node, .. } | MsgSpec::Migrate { node, .. } => Some(node),
            _ => None,
        }
    }
    pub fn node_mut(&mut self) -> Option<&mut Node> {
        match self {
            MsgSpec::Exec { node, .. } | MsgSpec::Inst { node, .. } | MsgSpec::Migrate { node, .. } => Some(node),
            _ => None,
        }
    }
    pub fn kind(&self) -> &'static str {
        match self {
            MsgSpec::Exec { .. } => "exec",
            MsgSpec::Inst { salt: None, .. } => "inst",
            MsgSpec::Inst { .. } => "inst2",
            MsgSpec::Migrate { .. } => "migrate",
            MsgSpec::UpdateAdmin { .. } => "update_admin",
            MsgSpec::ClearAdmin { .. } => "clear_admin",
            MsgSpec::Send { .. } => "send",
            MsgSpec::Burn { .. } => "burn",
            MsgSpec::Delegate { .. } => "delegate",
            MsgSpec::Undelegate { .. } => "undelegate",
            MsgSpec::Redelegate { .. } => "redelegate",
            MsgSpec::SetWithdraw { .. } => "set_withdraw",
            MsgSpec::Withdraw { .. } => "withdraw",
            MsgSpec::FundPool { .. } => "fund_pool",
            MsgSpec::Custom { .. } => "custom",
            MsgSpec::Ibc { .. } => "ibc",
            MsgSpec::Gov { .. } => "gov",
            MsgSpec::Stargate { .. } => "stargate",
            MsgSpec::Any { .. } => "any",
        }
    }
}
