//! SimStorage: the simulated "disk" used as the root store of the application under test.
//! An ordered map with write counters, snapshot/restore and a content digest.

use crate::prng::Fnv;
use cosmwasm_std::{Order, Record, Storage};
use std::collections::BTreeMap;
use std::ops::Bound;

#[derive(Clone, Default, Debug, PartialEq, Eq)]
pub struct SimStorage {
    pub data: BTreeMap<Vec<u8>, Vec<u8>>,
    pub sets: u64,
    pub removes: u64,
}

impl SimStorage {
    pub fn new() -> Self {
        Self::default()
    }

    pub fn snapshot(&self) -> BTreeMap<Vec<u8>, Vec<u8>> {
        self.data.clone()
    }

    pub fn restore(&mut self, snap: &BTreeMap<Vec<u8>, Vec<u8>>) {
        self.data = snap.clone();
    }

    pub fn writes(&self) -> u64 {
        self.sets + self.removes
    }

    pub fn digest(&self) -> u64 {
        digest_map(&self.data)
    }
}

pub fn digest_map(m: &BTreeMap<Vec<u8>, Vec<u8>>) -> u64 {
    let mut f = Fnv::new();
    for (k, v) in m {
        f.write_u64(k.len() as u64);
        f.write(k);
        f.write_u64(v.len() as u64);
        f.write(v);
    }
    f.finish()
}

/// Reference semantics of `Storage::range` on an ordered map: start inclusive, end exclusive,
/// an inverted or empty interval yields nothing.
pub fn model_range(
    m: &BTreeMap<Vec<u8>, Vec<u8>>,
    start: Option<&[u8]>,
    end: Option<&[u8]>,
    desc: bool,
) -> Vec<Record> {
    let mut out: Vec<Record> = m
        .iter()
        .filter(|(k, _)| start.map_or(true, |s| k.as_slice() >= s))
        .filter(|(k, _)| end.map_or(true, |e| k.as_slice() < e))
        .map(|(k, v)| (k.clone(), v.clone()))
        .collect();
    if desc {
        out.reverse();
    }
    out
}

impl Storage for SimStorage {
    fn get(&self, key: &[u8]) -> Option<Vec<u8>> {
        self.data.get(key).cloned()
    }

    fn range<'a>(
        &'a self,
        start: Option<&[u8]>,
        end: Option<&[u8]>,
        order: Order,
    ) -> Box<dyn Iterator<Item = Record> + 'a> {
        if let (Some(s), Some(e)) = (start, end) {
            if s >= e {
                return Box::new(std::iter::empty());
            }
        }
        let lo = start.map_or(Bound::Unbounded, |s| Bound::Included(s.to_vec()));
        let hi = end.map_or(Bound::Unbounded, |e| Bound::Excluded(e.to_vec()));
        let it = self
            .data
            .range((lo, hi))
            .map(|(k, v)| (k.clone(), v.clone()));
        match order {
            Order::Ascending => Box::new(it),
            Order::Descending => Box::new(it.rev()),
        }
    }

    fn set(&mut self, key: &[u8], value: &[u8]) {
        self.sets += 1;
        self.data.insert(key.to_vec(), value.to_vec());
    }

    fn remove(&mut self, key: &[u8]) {
        self.removes += 1;
        self.data.remove(key);
    }
}

pub fn dump(s: &dyn Storage) -> BTreeMap<Vec<u8>, Vec<u8>> {
    s.range(None, None, Order::Ascending).collect()
}

pub fn hex(b: &[u8]) -> String {
    let mut s = String::with_capacity(b.len() * 2);
    for x in b {
        s.push_str(&format!("{:02x}", x));
    }
    s
}
