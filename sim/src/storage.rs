//! SimStorage: the simulated "disk" used as the root store of the application under test.
//! An ordered map with write counters, snapshot/restore and a content digest.

use crate::prng::Fnv;
use cosmwasm_std::{Order, Record, Storage};
use std::collections::BTreeMap;
use std::ops::Bound;

#[derive(Clone, Default, Debug, PartialEq, Eq)]
pub struct SimStorage {
    pub data: BTreeMap<Vec<u8>, Vec<u8>>,
    pub sets: u64,
    pub removes: u64,
}

impl SimStorage {
    pub fn new() -> Self {
        Self::default()
    }

    pub fn snapshot(&self) -> BTreeMap<Vec<u8>, Vec<u8>> {
        self.data.clone()
    }

    pub fn restore(&mut self, snap: &BTreeMap<Vec<u8>, Vec<u8>>) {
        self.data = snap.clone();
    }

    pub fn writes(&self) -> u64 {
        self.sets + self.removes
    }

    pub fn digest(&self) -> u64 {
        digest_map(&self.data)
    }
}

pub fn digest_map(m: &BTreeMap<Vec<u8>, Vec<u8>>) -> u64 {
    let mut f = Fnv::new();
    for (k, v) in m {
        f.write_u64(k.len() as u64);
        f.write(k);
        f.write_u64(v.len() as u64);
        f.write(v);
    }
    f.finish()
}

/// Reference semantics of `Storage::range` on an ordered map: start inclusive, end exclusive,
/// an inverted or empty interval yields nothing.
pub fn model_range(
    m: &BTreeMap<Vec<u8>, Vec<u8>>,
    start: Option<&[u8]>,
    end: Option<&[u8]>,
    desc: bool,
) -> Vec<Record> {
    let mut out: Vec<Record> = m
        .iter()
        .filter(|(k, _)| start.map_or(true, |s| k.as_slice() >= s))
        .filter(|(k, _)| end.map_or(true, |e| k.as_slice() < e))
        .map(|(k, v)| (k.clone(), v.clone()))
        .collect();
    if desc {
        out.reverse();
    }
    out
}

impl Storage for SimStorage {
    fn get(&self, key: &[u8]) -> Option<Vec<u8>> {
        self.data.get(key).cloned()
    }

    fn range<'a>(
        &'a self,
        start: Option<&[u8]>,
        end: Option<&[u8]>,
        order: Order,
    ) -> Box<dyn Iterator<Item = Record> + 'a> {
        if let (Some(s), Some(e)) = (start, end) {
            if s >= e {
                return Box::new(std::iter::empty());
            }
        }
        let lo = start.map_or(Bound::Unbounded, |s| Bound::Included(s.to_vec()));
        let hi = end.map_or(Bound::Unbounded, |e| Bound::Excluded(e.to_vec()));
        let it = self
            .data
            .range((lo, hi))
            .map(|(k, v)| (k.clone(), v.clone()));
        match order {
            Order::Ascending => Box::new(it),
            Order::Descending => Box::new(it.rev()),
        }
    }

    fn set(&mut self, key: &[u8], value: &[u8]) {
        self.sets += 1;
        self.data.insert(key.to_vec(), value.to_vec());
    }

    fn remove(&mut self, key: &[u8]) {
        self.removes += 1;
        self.data.remove(key);
    }
}

pub fn dump(s: &dyn Storage) -> BTreeMap<Vec<u8>, Vec<u8>> {
    s.range(None, None, Order::Ascending).collect()
}

pub fn hex(b: &[u8]) -> String {
    let mut s = String::with_capacity(b.len() * 2);
    for x in b {
        s.push_str(&format!("{:02x}", x));
    }
    s
}

/// Consumes `st.range(start, end, order)` through the iterator adaptors a caller may use instead of a
/// plain `collect` (`skip`, `nth`, `step_by`, `take`, `count`, `last`, `size_hint`, and `nth` after a
/// few `next`) and compares each with the same adaptor applied to the expected sequence. Deterministic:
/// the adaptor arguments derive from the expected length only.
pub fn adaptor_mismatch(st: &dyn Storage, start: Option<&[u8]>, end: Option<&[u8]>, order: Order, exp: &[Record]) -> Option<String> {
    let n = exp.len();
    if n == 0 || n > 64 {
        return None;
    }
    let it = || st.range(start, end, order);
    for k in [1usize, 2, n / 2, n.saturating_sub(1), n] {
        let got: Vec<Record> = it().skip(k).collect();
        if got != exp[k.min(n)..] {
            return Some(format!("skip({}) yields {} records, expected {}: got [{}]", k, got.len(), n - k.min(n), got.iter().map(|r| hex(&r.0)).collect::<Vec<_>>().join(",")));
        }
        let mut i = it();
        let got = i.nth(k);
        if got.as_ref() != exp.get(k) {
            return Some(format!("nth({}) = {:?}, expected {:?}", k, got.map(|r| hex(&r.0)), exp.get(k).map(|r| hex(&r.0))));
        }
        let rest: Vec<Record> = i.collect();
        if rest != exp[(k + 1).min(n)..] {
            return Some(format!("after nth({}) {} records remain, expected {}", k, rest.len(), n - (k + 1).min(n)));
        }
    }
    for step in [2usize, 3] {
        let got: Vec<Record> = it().step_by(step).collect();
        let want: Vec<Record> = exp.iter().cloned().step_by(step).collect();
        if got != want {
            return Some(format!("step_by({}) yields [{}], expected [{}]", step, got.iter().map(|r| hex(&r.0)).collect::<Vec<_>>().join(","), want.iter().map(|r| hex(&r.0)).collect::<Vec<_>>().join(",")));
        }
    }
    // a few `next`, then a jump, then the rest
    let mut i = it();
    let a = i.next();
    let b = i.nth(1);
    let rest: Vec<Record> = i.collect();
    if a.as_ref() != exp.first() || b.as_ref() != exp.get(2) || rest != exp[3.min(n)..] {
        return Some("next, nth(1), collect does not equal elements 0, 2, 3.. of the expected sequence".to_string());
    }
    if it().count() != n {
        return Some(format!("count() = {}, expected {}", it().count(), n));
    }
    if it().last().as_ref() != exp.last() {
        return Some("last() is not the last expected record".to_string());
    }
    let got: Vec<Record> = it().take(2).collect();
    if got != exp[..2.min(n)] {
        return Some("take(2) differs".to_string());
    }
    let (lo, hi) = it().size_hint();
    if lo > n || hi.map(|h| h < n).unwrap_or(false) {
        return Some(format!("size_hint() = ({}, {:?}) excludes the true length {}", lo, hi, n));
    }
    None
}
