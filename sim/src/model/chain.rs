//! Reference model of the chain: bank ledger, code registry, contract registry, per-contract
//! KV and the wasmd dispatch semantics (DESIGN.md Appendix A). Written from the property
//! statements. Opaque values (fresh contract addresses, checksums) are learned from the real
//! run and then checked for freshness / stability, never predicted.

use crate::contract::smart_answer;
use crate::ops::*;
use crate::resolve::*;
use crate::storage::hex;
use crate::world::{Ev, ModCall, ReplyInfo, TraceRec};
use std::collections::{BTreeMap, BTreeSet, VecDeque};

pub const CONTRACT_ATTR: &str = "_contract_address";
pub const POOL: &str = "staking_module";

#[derive(Clone, Debug, PartialEq, Eq)]
pub struct MContract {
    pub code_id: u64,
    pub creator: String,
    pub admin: Option<String>,
    pub label: String,
    /// (checksum identity, creator, salt) for instantiate2
    pub salt_key: Option<(String, String, Vec<u8>)>,
}

#[derive(Clone, Debug, PartialEq, Eq)]
pub struct MCode {
    pub tag: u32,
    pub kind: CodeKind,
    pub creator: String,
    /// learned at store time (hex)
    pub checksum: String,
}

/// Lite staking ledger (integral amounts; chainsim runs with APR 0 and never slashes).
#[derive(Clone, Debug, Default, PartialEq, Eq)]
pub struct MStake {
    pub delegations: BTreeMap<(String, String), u128>,
    /// (payout time nanos, delegator, amount)
    pub unbonding: VecDeque<(u64, String, u128)>,
    pub withdraw_addr: BTreeMap<String, String>,
}

/// The transactional part of the model state (snapshotted and restored).
#[derive(Clone, Debug, Default, PartialEq, Eq)]
pub struct MState {
    pub bank: BTreeMap<String, BTreeMap<String, u128>>,
    pub contracts: BTreeMap<String, MContract>,
    pub kv: BTreeMap<String, BTreeMap<Vec<u8>, Vec<u8>>>,
    pub stake: MStake,
}

impl MState {
    pub fn balance(&self, addr: &str, denom: &str) -> u128 {
        self.bank.get(addr).and_then(|m| m.get(denom)).copied().unwrap_or(0)
    }
    pub fn supply(&self, denom: &str) -> u128 {
        self.bank.values().map(|m| m.get(denom).copied().unwrap_or(0)).sum()
    }
    fn credit(&mut self, addr: &str, denom: &str, amt: u128) {
        if amt == 0 {
            return;
        }
        *self.bank.entry(addr.to_string()).or_default().entry(denom.to_string()).or_insert(0) += amt;
    }
    fn debit(&mut self, addr: &str, denom: &str, amt: u128) -> Result<(), ()> {
        let b = self.balance(addr, denom);
        if b < amt {
            return Err(());
        }
        let m = self.bank.entry(addr.to_string()).or_default();
        if b == amt {
            m.remove(denom);
        } else {
            m.insert(denom.to_string(), b - amt);
        }
        Ok(())
    }
    pub fn all_balances(&self, addr: &str) -> Vec<(String, u128)> {
        self.bank.get(addr).map(|m| m.iter().filter(|(_, a)| **a > 0).map(|(d, a)| (d.clone(), *a)).collect()).unwrap_or_default()
    }
}

#[derive(Clone, Debug, Default, PartialEq, Eq)]
pub struct MResp {
    pub events: Vec<Ev>,
    pub data: Option<Vec<u8>>,
}

pub struct Model {
    pub s: MState,
    pub codes: BTreeMap<u64, MCode>,
    pub names: Names,
    pub reply_plans: BTreeMap<(String, u64), VecDeque<Node>>,
    pub fault_plan: BTreeSet<(String, u32)>,
    pub call_counts: BTreeMap<String, u32>,
    /// what answers behind the recorders of custom / ibc / gov / stargate:
    /// 0 stub with fault plan, 1 the repo's accepting module, 2 its failing module, 3 (custom) CachingCustomHandler
    pub module_cfg: [u8; 4],
    pub height: u64,
    pub time_nanos: u64,
    pub chain_id: String,
    pub unbonding_secs: u64,
    pub bonded_denom: String,
    // per-step outputs
    pub trace: Vec<TraceRec>,
    pub module_calls: Vec<ModCall>,
    // learning from the real run of the same step
    pub learned_addr: BTreeMap<u32, String>,
    pub real_module_events: VecDeque<Vec<Ev>>,
    /// oracle flags raised inside the model run (e.g. a learned address that is not fresh)
    pub flags: Vec<(String, String, String)>,
    pub probes: BTreeMap<String, u64>,
    pub faults: BTreeMap<String, u64>,
    /// the faults of the current step, in order
    pub step_faults: Vec<String>,
    /// a scripted contract panicked in the current step: the call unwinds to the top, nothing is caught
    pub panicked: bool,
    /// denomination metadata set through the bank keeper's administration function (name per denomination)
    pub denom_meta: BTreeMap<String, String>,
    /// out of band: every address ever observed for a (checksum, creator, salt) triple, including in
    /// instantiations that were rolled back afterwards
    pub salted_seen: BTreeMap<(String, String, Vec<u8>), String>,
    /// address validity as the chain's Api sees it (set only when adversarial addresses are in play)
    pub addr_validator: Option<Box<dyn Fn(&str) -> bool>>,
    /// (code id, instance count, salted (checksum hex, creator, salt)) -> address, used only when
    /// the address could not be learned because the instantiate entry point never ran
    pub addr_fallback: Option<Box<dyn Fn(u64, u64, Option<(String, String, Vec<u8>)>) -> Option<String>>>,
}

#[derive(Clone)]
pub struct ModelOob {
    reply_plans: BTreeMap<(String, u64), VecDeque<Node>>,
    slots: BTreeMap<u32, String>,
    call_counts: BTreeMap<String, u32>,
}

fn varint(mut n: usize, out: &mut Vec<u8>) {
    loop {
        let b = (n & 0x7f) as u8;
        n >>= 7;
        if n == 0 {
            out.push(b);
            break;
        }
        out.push(b | 0x80);
    }
}

/// Standard execute-response encoding: message with field 1 (bytes) = data; empty data is omitted by proto3.
pub fn wrap_execute(data: &[u8]) -> Vec<u8> {
    let mut out = vec![];
    if !data.is_empty() {
        out.push(0x0a);
        varint(data.len(), &mut out);
        out.extend_from_slice(data);
    }
    out
}

/// Standard instantiate-response encoding: field 1 (string) = address, field 2 (bytes) = data.
pub fn wrap_instantiate(addr: &str, data: &[u8]) -> Vec<u8> {
    let mut out = vec![];
    if !addr.is_empty() {
        out.push(0x0a);
        varint(addr.len(), &mut out);
        out.extend_from_slice(addr.as_bytes());
    }
    if !data.is_empty() {
        out.push(0x12);
        varint(data.len(), &mut out);
        out.extend_from_slice(data);
    }
    out
}

/// C13 predicate on one string pair.
pub fn bad_attr_key(k: &str) -> bool {
    let t = k.trim();
    t.is_empty() || t.starts_with('_')
}

pub fn bad_event_type(t: &str) -> bool {
    t.trim().len() < 2
}

pub fn malformed(node: &Node) -> bool {
    node.attrs.iter().any(|(k, _)| bad_attr_key(k))
        || node.events.iter().any(|e| bad_event_type(&e.ty) || e.attrs.iter().any(|(k, _)| bad_attr_key(k)))
}

pub fn ev(ty: &str, attrs: &[(&str, &str)]) -> Ev {
    Ev { ty: ty.to_string(), attrs: attrs.iter().map(|(k, v)| (k.to_string(), v.to_string())).collect() }
}

impl Model {
    pub fn new(names: Names, chain_id: String, height: u64, time_nanos: u64) -> Self {
        Model {
            s: MState::default(),
            codes: BTreeMap::new(),
            names,
            reply_plans: BTreeMap::new(),
            fault_plan: BTreeSet::new(),
            call_counts: BTreeMap::new(),
            module_cfg: [0; 4],
            height,
            time_nanos,
            chain_id,
            unbonding_secs: 60,
            bonded_denom: "TOKEN".to_string(),
            trace: vec![],
            module_calls: vec![],
            learned_addr: BTreeMap::new(),
            real_module_events: VecDeque::new(),
            flags: vec![],
            probes: BTreeMap::new(),
            faults: BTreeMap::new(),
            step_faults: vec![],
            panicked: false,
            denom_meta: BTreeMap::new(),
            addr_fallback: None,
            addr_validator: None,
            salted_seen: BTreeMap::new(),
        }
    }

    pub fn probe(&mut self, k: &str) {
        *self.probes.entry(k.to_string()).or_insert(0) += 1;
    }
    pub fn fault(&mut self, k: &str) {
        *self.faults.entry(k.to_string()).or_insert(0) += 1;
        self.step_faults.push(k.to_string());
    }

    /// The fault that made the current step's call fail in the model: the last one recorded that is
    /// not mere propagation or catching.
    pub fn root_cause(&self) -> Option<&str> {
        self.step_faults.iter().rev().map(|s| s.as_str()).find(|k| *k != "failure_propagated" && *k != "failure_caught")
    }

    pub fn oob_snap(&self) -> ModelOob {
        ModelOob { reply_plans: self.reply_plans.clone(), slots: self.names.slots.clone(), call_counts: self.call_counts.clone() }
    }
    pub fn oob_restore(&mut self, o: &ModelOob) {
        self.reply_plans = o.reply_plans.clone();
        self.names.slots = o.slots.clone();
        self.call_counts = o.call_counts.clone();
    }

    pub fn begin_step(&mut self, real_trace: &[TraceRec], real_module_events: Vec<Vec<Ev>>) {
        self.trace.clear();
        self.module_calls.clear();
        self.flags.clear();
        self.step_faults.clear();
        self.panicked = false;
        self.learned_addr.clear();
        for r in real_trace {
            if r.kind == "instantiate" {
                self.learned_addr.entry(r.nid).or_insert_with(|| r.contract.clone());
            }
        }
        self.real_module_events = real_module_events.into();
    }

    pub fn valid_addr(&self, a: &str) -> bool {
        match &self.addr_validator {
            Some(f) => f(a),
            None => a != INVALID_ADDR && !a.is_empty(),
        }
    }

    /// Records a module call; Err when the fault plan rejects it.
    fn module_cfg_of(&self, kind: &str) -> u8 {
        match kind {
            "custom" | "custom.query" => self.module_cfg[0],
            "ibc" | "ibc.query" => self.module_cfg[1],
            "gov" => self.module_cfg[2],
            "stargate" | "any" | "stargate.query" | "grpc.query" => self.module_cfg[3],
            _ => 0,
        }
    }

    /// Response of an accepted module message: the stub's (a function of the message), or the empty
    /// response of the repo's accepting modules.
    fn stub_resp(&self, kind: &str, payload: &str) -> MResp {
        if self.module_cfg_of(kind) == 0 {
            let (events, data) = crate::world::stub_response(kind, payload);
            MResp { events, data }
        } else {
            MResp::default()
        }
    }

    /// Records a call that is never subject to the fault plan.
    fn record_call(&mut self, kind: &str, payload: String) {
        self.module_calls.push(ModCall { kind: kind.to_string(), sender: String::new(), payload });
        *self.call_counts.entry(kind.to_string()).or_insert(0) += 1;
    }

    fn module_call(&mut self, kind: &str, sender: &str, payload: String) -> Result<u32, ()> {
        self.module_calls.push(ModCall { kind: kind.to_string(), sender: sender.to_string(), payload });
        let c = self.call_counts.entry(kind.to_string()).or_insert(0);
        let n = *c;
        *c += 1;
        match self.module_cfg_of(kind) {
            0 => {}
            2 => {
                self.fault(&format!("failing_module:{}", kind));
                return Err(());
            }
            _ => {
                self.probe("accepting_module_call");
                return Ok(n + 1);
            }
        }
        if self.fault_plan.contains(&(kind.to_string(), n)) {
            self.fault(&format!("module_reject:{}", kind));
            Err(())
        } else {
            Ok(n + 1)
        }
    }

    // ------------------------------------------------------------------ bank

    fn bank_send(&mut self, sender: &str, to: &str, coins: &[(String, u128)]) -> Result<MResp, ()> {
        if sender == POOL {
            // payouts of the block update: recorded, never subject to the fault plan
            self.module_calls.push(ModCall { kind: "bank".to_string(), sender: sender.to_string(), payload: format!("send:{}:{}", to, coins_string(coins)) });
            *self.call_counts.entry("bank".to_string()).or_insert(0) += 1;
        } else {
            self.module_call("bank", sender, format!("send:{}:{}", to, coins_string(coins)))?;
        }
        let positive: Vec<&(String, u128)> = coins.iter().filter(|c| c.1 > 0).collect();
        if positive.is_empty() {
            self.fault("bank_empty_amount");
            return Err(());
        }
        let snap = self.s.bank.clone();
        for (d, a) in positive.iter().map(|c| (&c.0, c.1)) {
            if self.s.debit(sender, d, a).is_err() {
                self.s.bank = snap;
                self.fault("bank_overdraft");
                return Err(());
            }
        }
        for (d, a) in positive.iter().map(|c| (&c.0, c.1)) {
            self.s.credit(to, d, a);
        }
        if sender == to {
            self.probe("self_transfer");
        }
        Ok(MResp {
            events: vec![ev("transfer", &[("recipient", to), ("sender", sender), ("amount", &coins_string(coins))])],
            data: None,
        })
    }

    fn bank_burn(&mut self, sender: &str, coins: &[(String, u128)]) -> Result<MResp, ()> {
        self.module_call("bank", sender, format!("burn:{}", coins_string(coins)))?;
        let positive: Vec<&(String, u128)> = coins.iter().filter(|c| c.1 > 0).collect();
        if positive.is_empty() {
            self.fault("bank_empty_amount");
            return Err(());
        }
        let snap = self.s.bank.clone();
        for (d, a) in positive.iter().map(|c| (&c.0, c.1)) {
            if self.s.debit(sender, d, a).is_err() {
                self.s.bank = snap;
                self.fault("bank_overdraft");
                return Err(());
            }
        }
        Ok(MResp::default())
    }

    pub fn bank_mint(&mut self, to: &str, coins: &[(String, u128)]) -> Result<MResp, ()> {
        let _ = self.module_call("bank.sudo", "", format!("mint:{}:{}", to, coins_string(coins)));
        if !self.valid_addr(to) {
            return Err(());
        }
        let positive: Vec<&(String, u128)> = coins.iter().filter(|c| c.1 > 0).collect();
        if positive.is_empty() {
            self.fault("bank_empty_amount");
            return Err(());
        }
        for (d, a) in positive.iter().map(|c| (&c.0, c.1)) {
            self.s.credit(to, d, a);
        }
        Ok(MResp::default())
    }

    fn attach_funds(&mut self, sender: &str, to: &str, funds: &[(String, u128)]) -> Result<(), ()> {
        if !funds.is_empty() {
            let r = self.bank_send(sender, to, funds);
            if r.is_err() {
                self.fault("funds_transfer_failed");
            }
            r?;
        }
        Ok(())
    }

    // ------------------------------------------------------------------ dispatch

    /// One top-level call: all-or-nothing.
    pub fn top_level(&mut self, sender: &str, msgs: &[CMsg]) -> Result<Vec<MResp>, ()> {
        let s0 = self.s.clone();
        let mut out = vec![];
        for m in msgs {
            match self.exec_msg(sender, m, 0) {
                Ok(r) => out.push(r),
                Err(()) => {
                    self.s = s0;
                    return Err(());
                }
            }
        }
        Ok(out)
    }

    pub fn top_level_sudo(&mut self, contract: &str, node: &Node) -> Result<MResp, ()> {
        let s0 = self.s.clone();
        if self.module_call("wasm.sudo", "", contract.to_string()).is_err() {
            return Err(());
        }
        let e = ev("sudo", &[(CONTRACT_ATTR, contract)]);
        match self.call(contract, "sudo", "", &[], node, None, e, 0) {
            Ok(r) => Ok(r),
            Err(()) => {
                self.s = s0;
                Err(())
            }
        }
    }

    pub fn exec_msg(&mut self, sender: &str, m: &CMsg, depth: u32) -> Result<MResp, ()> {
        match m {
            CMsg::Send { to, coins } => self.bank_send(sender, to, coins),
            CMsg::Burn { coins } => self.bank_burn(sender, coins),
            CMsg::Exec { contract, node, funds } => {
                self.module_call("wasm", sender, format!("execute:{}", contract))?;
                if !self.valid_addr(contract) {
                    self.fault("invalid_address");
                    return Err(());
                }
                self.attach_funds(sender, contract, funds)?;
                if !self.s.contracts.contains_key(contract) {
                    self.fault("unknown_contract");
                    return Err(());
                }
                let e = ev("execute", &[(CONTRACT_ATTR, contract)]);
                let mut r = self.call(contract, "execute", sender, funds, node, None, e, depth)?;
                r.data = r.data.map(|d| wrap_execute(&d));
                Ok(r)
            }
            CMsg::Inst { code_id, slot: _, node, funds, label, admin, salt } => {
                let payload = match salt {
                    None => format!("instantiate:{}:{}", code_id, label),
                    Some(s) => format!("instantiate2:{}:{}:{}", code_id, label, hex(s)),
                };
                self.module_call("wasm", sender, payload)?;
                if label.is_empty() {
                    self.fault("empty_label");
                    return Err(());
                }
                let code = match self.codes.get(code_id) {
                    Some(c) => c.clone(),
                    None => {
                        self.fault("unknown_code_id");
                        return Err(());
                    }
                };
                let mut salt_key = None;
                if let Some(s) = salt {
                    if s.is_empty() || s.len() > 64 {
                        self.fault("bad_salt_length");
                        return Err(());
                    }
                    let key = (code.checksum.clone(), sender.to_string(), s.clone());
                    if self.s.contracts.values().any(|c| c.salt_key.as_ref() == Some(&key)) {
                        self.fault("duplicate_salt");
                        return Err(());
                    }
                    salt_key = Some(key);
                }
                let addr = match self.learned_addr.get(&node.nid) {
                    Some(a) => a.clone(),
                    None => {
                        let n = self.s.contracts.len() as u64;
                        let fb = self.addr_fallback.as_ref().and_then(|f| f(*code_id, n, salt_key.clone()));
                        if fb.is_none() && salt_key.is_some() && self.addr_fallback.is_some() {
                            // the salted address cannot even be computed (the creator's address does not
                            // canonicalize under the chain's Api): the instantiation is rejected
                            self.fault("creator_not_canonical");
                            return Err(());
                        }
                        let a = fb.unwrap_or_else(|| format!("unlearned-address-of-node-{}", node.nid));
                        // the entry point never ran: when the generator handed out an address that a contract
                        // already has, the instantiation was (and had to be) rejected as a duplicate
                        if self.s.contracts.contains_key(&a) {
                            self.fault("duplicate_address");
                            return Err(());
                        }
                        a
                    }
                };
                if let (Some(key), true) = (&salt_key, self.learned_addr.contains_key(&node.nid)) {
                    // the salted address is a function of (checksum, creator, salt) only ...
                    match self.salted_seen.get(key) {
                        Some(prev) if *prev != addr => self.flags.push((
                            "C11".into(),
                            "C11.salted_address_not_a_function".into(),
                            format!("instantiate2 with the same checksum, creator and salt ran at {} earlier (rolled back since) and at {} now", prev, addr),
                        )),
                        Some(_) => self.probe("salted_address_repeated_after_rollback"),
                        None => {
                            // ... and different triples give different addresses (two spellings of one creator that
                            // differ only in the case of their letters are the same creator for a codec that
                            // canonicalises capitals, as cosmwasm-std's MockApi does: not a different triple)
                            let same_up_to_case = |x: &(String, String, Vec<u8>), y: &(String, String, Vec<u8>)| x.0 == y.0 && x.2 == y.2 && x.1.to_lowercase() == y.1.to_lowercase();
                            if let Some((k2, _)) = self.salted_seen.iter().find(|(k, a)| **a == addr && !same_up_to_case(k, key)) {
                                self.flags.push((
                                    "C11".into(),
                                    "C11.salted_address_collision".into(),
                                    format!("instantiate2 triples {:?} and {:?} were both given address {}", k2, key, addr),
                                ));
                            }
                            self.salted_seen.insert(key.clone(), addr.clone());
                        }
                    }
                }
                if self.s.contracts.contains_key(&addr) {
                    self.flags.push((
                        "C11".into(),
                        "C11.address_not_fresh".into(),
                        format!("instantiation (node {}) was given address {} which an existing contract already has", node.nid, addr),
                    ));
                }
                self.s.contracts.insert(
                    addr.clone(),
                    MContract { code_id: *code_id, creator: sender.to_string(), admin: admin.clone(), label: label.clone(), salt_key },
                );
                self.s.kv.entry(addr.clone()).or_default();
                if !self.s.all_balances(&addr).is_empty() {
                    self.probe("instantiate_at_address_that_holds_coins");
                }
                self.attach_funds(sender, &addr, funds)?;
                let cid = code_id.to_string();
                let e = ev("instantiate", &[(CONTRACT_ATTR, &addr), ("code_id", &cid)]);
                let mut r = self.call(&addr, "instantiate", sender, funds, node, None, e, depth)?;
                r.data = Some(wrap_instantiate(&addr, r.data.as_deref().unwrap_or(&[])));
                self.probe("instantiate_ok");
                if self.addr_validator.is_some() {
                    // adversarial address generator: which kinds of neighbours exist
                    let mut succ = addr.as_bytes().to_vec();
                    if let Some(l) = succ.last_mut() {
                        *l = l.wrapping_sub(1);
                    }
                    if self.s.contracts.contains_key(&String::from_utf8_lossy(&succ).to_string()) {
                        self.probe("contract_at_successor_address");
                    }
                    if addr.to_lowercase() != addr && self.s.contracts.contains_key(&addr.to_lowercase()) {
                        self.probe("contract_at_case_twin_address");
                    }
                    if addr.len() > 241 {
                        self.probe("contract_at_address_of_242_bytes_or_more");
                    }
                }
                Ok(r)
            }
            CMsg::Migrate { contract, code_id, node } => {
                self.module_call("wasm", sender, format!("migrate:{}:{}", contract, code_id))?;
                if !self.valid_addr(contract) {
                    self.fault("invalid_address");
                    return Err(());
                }
                if !self.codes.contains_key(code_id) {
                    self.fault("unknown_code_id");
                    return Err(());
                }
                let c = match self.s.contracts.get_mut(contract) {
                    Some(c) => c,
                    None => {
                        self.fault("unknown_contract");
                        return Err(());
                    }
                };
                if c.admin.as_deref() != Some(sender) {
                    self.fault("not_admin");
                    return Err(());
                }
                c.code_id = *code_id;
                let cid = code_id.to_string();
                let e = ev("migrate", &[(CONTRACT_ATTR, contract), ("code_id", &cid)]);
                let mut r = self.call(contract, "migrate", "", &[], node, None, e, depth)?;
                r.data = r.data.map(|d| wrap_execute(&d));
                self.probe("migrate_ok");
                Ok(r)
            }
            CMsg::UpdateAdmin { contract, admin } => {
                self.module_call("wasm", sender, format!("update_admin:{}:{}", contract, admin))?;
                self.set_admin(sender, contract, Some(admin.clone()))
            }
            CMsg::ClearAdmin { contract } => {
                self.module_call("wasm", sender, format!("clear_admin:{}", contract))?;
                self.set_admin(sender, contract, None)
            }
            CMsg::Custom { tag } => {
                let payload = tag.clone();
                self.module_call("custom", sender, payload.clone())?;
                Ok(self.stub_resp("custom", &payload))
            }
            CMsg::Ibc { tag } => {
                let payload = tag.clone();
                self.module_call("ibc", sender, payload.clone())?;
                Ok(self.stub_resp("ibc", &payload))
            }
            CMsg::Gov { n } => {
                let payload = n.to_string();
                self.module_call("gov", sender, payload.clone())?;
                Ok(self.stub_resp("gov", &payload))
            }
            CMsg::Stargate { tag, value } => {
                let payload = format!("{}:{}", tag, hex(value));
                self.module_call("stargate", sender, payload.clone())?;
                Ok(self.stub_resp("stargate", &payload))
            }
            CMsg::Any { tag, value } => {
                let payload = format!("{}:{}", tag, hex(value));
                self.module_call("any", sender, payload.clone())?;
                Ok(self.stub_resp("any", &payload))
            }
            CMsg::Delegate { validator, coin } => self.delegate(sender, validator, coin),
            CMsg::Undelegate { validator, coin } => self.undelegate(sender, validator, coin),
            CMsg::Redelegate { src, dst, coin } => self.redelegate(sender, src, dst, coin),
            CMsg::SetWithdraw { to } => {
                self.module_call("distribution", sender, format!("set_withdraw:{}", to))?;
                if !self.valid_addr(to) {
                    return Err(());
                }
                if to == sender {
                    self.s.stake.withdraw_addr.remove(sender);
                } else {
                    self.s.stake.withdraw_addr.insert(sender.to_string(), to.clone());
                }
                Ok(MResp { events: self.real_module_events.pop_front().unwrap_or_default(), data: None })
            }
            CMsg::FundPool { coins } => {
                // handed to the distribution module, which does not support it
                self.module_call("distribution", sender, format!("fund_pool:{}", coins_string(coins)))?;
                self.fault("unsupported_distribution_message");
                Err(())
            }
            CMsg::Withdraw { validator } => {
                // chainsim runs with APR 0: there is never a positive reward, so the withdrawal
                // (which would mint nothing) is rejected, like any operation without a positive amount
                self.module_call("distribution", sender, format!("withdraw:{}", validator))?;
                if self.names.validators.contains(validator) && self.s.stake.delegations.contains_key(&(sender.to_string(), validator.clone())) {
                    let _ = self.module_call("bank.sudo", "", format!("mint:{}:0{}", self.s.stake.withdraw_addr.get(sender).cloned().unwrap_or(sender.to_string()), self.bonded_denom));
                }
                Err(())
            }
        }
    }

    fn set_admin(&mut self, sender: &str, contract: &str, admin: Option<String>) -> Result<MResp, ()> {
        if !self.valid_addr(contract) {
            self.fault("invalid_address");
            return Err(());
        }
        if let Some(a) = &admin {
            if !self.valid_addr(a) {
                self.fault("invalid_address");
                return Err(());
            }
        }
        let c = match self.s.contracts.get_mut(contract) {
            Some(c) => c,
            None => {
                self.fault("unknown_contract");
                return Err(());
            }
        };
        if c.admin.as_deref() != Some(sender) {
            self.fault("not_admin");
            return Err(());
        }
        c.admin = admin;
        self.probe("admin_changed");
        Ok(MResp::default())
    }

    // ------------------------------------------------------------------ lite staking

    fn delegate(&mut self, sender: &str, validator: &str, coin: &(String, u128)) -> Result<MResp, ()> {
        self.module_call("staking", sender, format!("delegate:{}:{}{}", validator, coin.1, coin.0))?;
        if coin.1 == 0 || coin.0 != self.bonded_denom || !self.names.validators.iter().any(|v| v == validator) {
            self.fault("staking_invalid");
            return Err(());
        }
        *self.s.stake.delegations.entry((sender.to_string(), validator.to_string())).or_insert(0) += coin.1;
        if let Err(()) = self.bank_send(sender, POOL, &[coin.clone()]) {
            return Err(());
        }
        Ok(MResp { events: self.real_module_events.pop_front().unwrap_or_default(), data: None })
    }

    fn undelegate(&mut self, sender: &str, validator: &str, coin: &(String, u128)) -> Result<MResp, ()> {
        self.module_call("staking", sender, format!("undelegate:{}:{}{}", validator, coin.1, coin.0))?;
        let key = (sender.to_string(), validator.to_string());
        let have = self.s.stake.delegations.get(&key).copied().unwrap_or(0);
        if coin.1 == 0 || coin.0 != self.bonded_denom || !self.names.validators.iter().any(|v| v == validator) || have < coin.1 || have == 0 {
            self.fault("staking_invalid");
            return Err(());
        }
        if have == coin.1 {
            self.s.stake.delegations.remove(&key);
        } else {
            self.s.stake.delegations.insert(key, have - coin.1);
        }
        self.s.stake.unbonding.push_back((self.time_nanos + self.unbonding_secs * 1_000_000_000, sender.to_string(), coin.1));
        Ok(MResp { events: self.real_module_events.pop_front().unwrap_or_default(), data: None })
    }

    fn redelegate(&mut self, sender: &str, src: &str, dst: &str, coin: &(String, u128)) -> Result<MResp, ()> {
        self.module_call("staking", sender, format!("redelegate:{}:{}:{}{}", src, dst, coin.1, coin.0))?;
        let key = (sender.to_string(), src.to_string());
        let have = self.s.stake.delegations.get(&key).copied().unwrap_or(0);
        let known = |v: &str| self.names.validators.iter().any(|x| x == v);
        if coin.1 == 0 || coin.0 != self.bonded_denom || !known(src) || !known(dst) || have < coin.1 || have == 0 {
            self.fault("staking_invalid");
            return Err(());
        }
        if have == coin.1 {
            self.s.stake.delegations.remove(&key);
        } else {
            self.s.stake.delegations.insert(key, have - coin.1);
        }
        *self.s.stake.delegations.entry((sender.to_string(), dst.to_string())).or_insert(0) += coin.1;
        Ok(MResp { events: self.real_module_events.pop_front().unwrap_or_default(), data: None })
    }

    /// Block update: matured unbondings are paid from the pool (queue order, front first).
    pub fn advance_block(&mut self, height: u64, time_nanos: u64) {
        self.height = height;
        self.time_nanos = time_nanos;
        while let Some((at, who, amount)) = self.s.stake.unbonding.front().cloned() {
            if at <= time_nanos {
                self.s.stake.unbonding.pop_front();
                if amount > 0 {
                    let c = [(self.bonded_denom.clone(), amount)];
                    let _ = self.bank_send(POOL, &who, &c);
                    self.probe("unbonding_paid");
                }
            } else {
                break;
            }
        }
    }

    // ------------------------------------------------------------------ contract calls

    fn answer(&mut self, q: &QueryOp, self_addr: &str, kind: CodeKind) -> String {
        let names = &self.names;
        match q {
            QueryOp::Balance { who, denom } => {
                let a = names.target(who, self_addr);
                let d = names.denom(*denom);
                // the configured bank module is asked whatever the address looks like
                self.record_call("bank.query", format!("balance:{}:{}", a, d));
                if !self.valid_addr(&a) {
                    return "ERR".into();
                }
                format!("{}{}", self.s.balance(&a, &d), d)
            }
            QueryOp::AllBalances { who } => {
                let a = names.target(who, self_addr);
                self.record_call("bank.query", format!("all:{}", a));
                if !self.valid_addr(&a) {
                    return "ERR".into();
                }
                coins_string(&self.s.all_balances(&a))
            }
            QueryOp::Supply { denom } => {
                let d = names.denom(*denom);
                self.record_call("bank.query", format!("supply:{}", d));
                format!("{}{}", self.s.supply(&d), d)
            }
            QueryOp::DenomMeta { denom } => {
                let d = names.denom(*denom);
                self.record_call("bank.query", format!("meta:{}", d));
                self.denom_meta.get(&d).cloned().unwrap_or_default()
            }
            QueryOp::AllDenomMeta => {
                self.record_call("bank.query", "allmeta".to_string());
                self.denom_meta.values().cloned().collect::<Vec<_>>().join(",")
            }
            QueryOp::Raw { contract, key } => {
                let a = names.target(contract, self_addr);
                let k = names.key(key);
                if self.module_call("wasm.query", "", format!("raw:{}:{}", a, hex(&k))).is_err() {
                    return "ERR".into();
                }
                let names = &self.names;
                if !self.valid_addr(&a) {
                    return "ERR".into();
                }
                match self.s.kv.get(&a).and_then(|m| m.get(&names.key(key))) {
                    Some(v) => hex(v),
                    None => "none".into(),
                }
            }
            QueryOp::Smart { contract, keys, scan, chain } => {
                let a = names.target(contract, self_addr);
                let chain: Vec<String> = chain.iter().map(|t| names.target(t, self_addr)).collect();
                match self.smart(&a, keys, *scan, &chain) {
                    Ok(s) => s,
                    Err(()) => "ERR".into(),
                }
            }
            QueryOp::ContractInfo { contract } => {
                let a = names.target(contract, self_addr);
                if self.module_call("wasm.query", "", format!("contract_info:{}", a)).is_err() {
                    return "ERR".into();
                }
                if !self.valid_addr(&a) {
                    return "ERR".into();
                }
                match self.s.contracts.get(&a) {
                    Some(c) => format!("{}|{}|{}", c.code_id, c.creator, c.admin.clone().unwrap_or_else(|| "-".into())),
                    None => "ERR".into(),
                }
            }
            QueryOp::CodeInfo { code } => {
                let id = names.code_id(*code);
                if self.module_call("wasm.query", "", format!("code_info:{}", id)).is_err() {
                    return "ERR".into();
                }
                match self.codes.get(&id) {
                    Some(c) => format!("{}|{}|{}", id, c.creator, c.checksum),
                    None => "ERR".into(),
                }
            }
            QueryOp::Custom { tag } => {
                if kind == CodeKind::WrappedEmpty {
                    return "SKIP".into();
                }
                let tag = tag.clone();
                match self.module_call("custom.query", "", tag.clone()) {
                    Ok(_) => self.module_answer("custom.query", &tag),
                    Err(()) => "ERR".into(),
                }
            }
            QueryOp::Ibc { tag } => {
                let tag = tag.clone();
                match self.module_call("ibc.query", "", tag.clone()) {
                    Ok(_) => self.module_answer("ibc.query", &tag),
                    Err(()) => "ERR".into(),
                }
            }
            QueryOp::Stargate { tag } => {
                let tag = tag.clone();
                match self.module_call("stargate.query", "", tag.clone()) {
                    Ok(_) => self.module_answer("stargate.query", &tag),
                    Err(()) => "ERR".into(),
                }
            }
            QueryOp::Grpc { tag } => {
                let tag = tag.clone();
                match self.module_call("grpc.query", "", tag.clone()) {
                    Ok(_) => self.module_answer("grpc.query", &tag),
                    Err(()) => "ERR".into(),
                }
            }
            QueryOp::Delegation { who, val } => {
                let a = names.target(who, self_addr);
                let v = names.validator(*val);
                if !names.validators.contains(&v) || !self.valid_addr(&a) {
                    return "ERR".into();
                }
                match self.s.stake.delegations.get(&(a, v)) {
                    Some(n) if *n > 0 => format!("{}{}|", n, self.bonded_denom),
                    _ => "none".into(),
                }
            }
            QueryOp::AllDelegations { who } => {
                let a = names.target(who, self_addr);
                if !self.valid_addr(&a) {
                    return "ERR".into();
                }
                names
                    .validators
                    .iter()
                    .filter_map(|v| self.s.stake.delegations.get(&(a.clone(), v.clone())).map(|n| format!("{}:{}{}", v, n, self.bonded_denom)))
                    .collect::<Vec<_>>()
                    .join(",")
            }
            QueryOp::BondedDenom => self.bonded_denom.clone(),
            QueryOp::AllValidators => names.validators.join(","),
            QueryOp::Validator { val } => {
                let v = names.validator(*val);
                if names.validators.contains(&v) {
                    v
                } else {
                    "none".into()
                }
            }
        }
    }

    /// Answer to an App-level query (committed state).
    pub fn answer_pub(&mut self, q: &QueryOp) -> String {
        self.answer(q, "", CodeKind::Direct)
    }

    /// Smart query answer of the scripted contracts (values, optional scan, optional nested forwarding).
    fn smart(&mut self, a: &str, keys: &[Vec<u8>], scan: bool, chain: &[String]) -> Result<String, ()> {
        self.module_call("wasm.query", "", format!("smart:{}", a))?;
        if !self.valid_addr(a) {
            return Err(());
        }
        let c = self.s.contracts.get(a).ok_or(())?;
        if !self.codes.contains_key(&c.code_id) {
            return Err(());
        }
        let empty = BTreeMap::new();
        let kv = self.s.kv.get(a).unwrap_or(&empty);
        let vals: Vec<Option<Vec<u8>>> = keys.iter().map(|k| kv.get(k).cloned()).collect();
        let mut s = smart_answer(a, self.height, &vals);
        if scan {
            s.push_str("|scan:");
            s.push_str(&kv.iter().map(|(k, v)| format!("{}={}", hex(k), hex(v))).collect::<Vec<_>>().join(","));
            s.push_str("|keys:");
            s.push_str(&kv.keys().rev().map(|k| hex(k)).collect::<Vec<_>>().join(","));
            s.push_str("|vals:");
            s.push_str(&kv.values().rev().map(|v| hex(v)).collect::<Vec<_>>().join(","));
        }
        if let Some(next) = chain.first() {
            self.probe("nested_smart_query");
            if chain.len() >= 3 {
                self.probe("query_nesting_ge_4");
            }
            match self.smart(&next.clone(), keys, scan, &chain[1..]) {
                Ok(x) => {
                    s.push_str("->");
                    s.push_str(&x);
                }
                Err(()) => s.push_str("->ERR"),
            }
        }
        Ok(s)
    }

    /// Raw bytes (hex) a module query returns.
    fn module_answer(&self, kind: &str, tag: &str) -> String {
        match self.module_cfg_of(kind) {
            0 => hex(format!("\"{}:{}\"", kind, tag).as_bytes()),
            // the repo's accepting modules: empty data, except the stargate query handler ("{}")
            _ => {
                if kind == "stargate.query" {
                    hex(b"{}")
                } else {
                    String::new()
                }
            }
        }
    }

    fn entry_fault_name(entry: &str) -> String {
        format!("{}_body_err", entry)
    }

    /// One contract entry point plus everything it dispatches.
    #[allow(clippy::too_many_arguments)]
    pub fn call(
        &mut self,
        contract: &str,
        entry: &str,
        sender: &str,
        funds: &[(String, u128)],
        node: &Node,
        reply: Option<ReplyInfo>,
        entry_event: Ev,
        depth: u32,
    ) -> Result<MResp, ()> {
        let c = match self.s.contracts.get(contract) {
            Some(c) => c.clone(),
            None => {
                self.fault("unknown_contract");
                return Err(());
            }
        };
        let code = match self.codes.get(&c.code_id) {
            Some(c) => c.clone(),
            None => return Err(()),
        };
        if node.empty_msg && entry != "reply" {
            // nothing can decode a zero-length message: the call fails before any contract code runs
            self.fault("bad_message");
            return Err(());
        }
        if code.kind == CodeKind::WrappedBare && matches!(entry, "sudo" | "reply" | "migrate") {
            // the wrapper has no such entry point: the call fails before any contract code runs
            self.fault("entry_point_missing");
            return Err(());
        }
        if entry == "instantiate" {
            if let Some(slot) = node.bind {
                self.names.slots.insert(slot, contract.to_string());
            }
        }
        let queries: Vec<String> = node.queries.iter().map(|q| self.answer(q, contract, code.kind)).collect();
        let names = self.names.clone();
        let empty = BTreeMap::new();
        let kv = self.s.kv.get(contract).unwrap_or(&empty);
        let read_model = |kv: &BTreeMap<Vec<u8>, Vec<u8>>, r: &ReadOp| -> String {
            match r {
                ReadOp::Get(k) => kv.get(&names.key(k)).map(|v| hex(v)).unwrap_or_else(|| "none".into()),
                ReadOp::Range { start, end, desc } => crate::storage::model_range(kv, start.as_deref(), end.as_deref(), *desc)
                    .iter()
                    .map(|(k, v)| format!("{}={}", hex(k), hex(v)))
                    .collect::<Vec<_>>()
                    .join(","),
                ReadOp::Keys { start, end, desc } => crate::storage::model_range(kv, start.as_deref(), end.as_deref(), *desc)
                    .iter()
                    .map(|(k, _)| hex(k))
                    .collect::<Vec<_>>()
                    .join(","),
                ReadOp::Values { start, end, desc } => crate::storage::model_range(kv, start.as_deref(), end.as_deref(), *desc)
                    .iter()
                    .map(|(_, v)| hex(v))
                    .collect::<Vec<_>>()
                    .join(","),
            }
        };
        let reads: Vec<String> = node.reads.iter().map(|r| read_model(kv, r)).collect();
        // the call's own writes, on a private copy (committed further down unless the call fails)
        let mut kv_after = kv.clone();
        for w in &node.writes {
            match w {
                WriteOp::Set { k, v } => {
                    kv_after.insert(names.key(k), v.clone());
                }
                WriteOp::Remove { k } => {
                    kv_after.remove(&names.key(k));
                }
                // remove + write back of the same value: no net change
                WriteOp::Restore { .. } => {}
                WriteOp::Bulk { tag, n, salt } => {
                    for i in 0..*n {
                        kv_after.insert(crate::ops::bulk_key(*tag, i), vec![*tag, (i >> 8) as u8, i as u8, 1, *salt]);
                    }
                }
                WriteOp::Hammer { k, n } => {
                    if *n > 0 {
                        kv_after.insert(names.key(k), format!("h{}", n - 1).into_bytes());
                    }
                }
                WriteOp::BulkRemove { tag, n } => {
                    for i in 0..*n {
                        kv_after.remove(&crate::ops::bulk_key(*tag, i));
                    }
                }
            }
        }
        let post_reads: Vec<String> = node.post_reads.iter().map(|r| read_model(&kv_after, r)).collect();
        self.trace.push(TraceRec {
            kind: entry.to_string(),
            code_tag: code.tag,
            contract: contract.to_string(),
            height: self.height,
            time_nanos: self.time_nanos,
            chain_id: self.chain_id.clone(),
            sender: sender.to_string(),
            funds: funds.to_vec(),
            nid: node.nid,
            reply: reply.clone(),
            queries,
            reads,
            post_reads,
        });
        if depth >= 2 {
            self.probe("call_depth_ge_2");
        }
        if node.panic {
            // a crash inside the contract: nothing catches it, the whole top-level call unwinds
            self.fault("contract_panic");
            self.panicked = true;
            return Err(());
        }
        if node.fail {
            self.fault(&Self::entry_fault_name(entry));
            if !node.writes.is_empty() {
                self.probe("failed_body_had_writes");
            }
            return Err(());
        }
        // resolve sub-messages against the state at entry, register reply plans
        // (a contract whose own address the Api does not accept cannot even ask for its balance)
        let bank_at_entry = if self.valid_addr(contract) { self.s.bank.get(contract).cloned().unwrap_or_default() } else { Default::default() };
        let balance = |d: &str| bank_at_entry.get(d).copied().unwrap_or(0);
        let mut subs: Vec<(CMsg, &Sub)> = vec![];
        for s in &node.subs {
            let cm = resolve_msg(&names, &s.msg, contract, &balance);
            if matches!(cm, CMsg::Custom { .. }) && code.kind == CodeKind::WrappedEmpty {
                continue;
            }
            if let Some(rn) = &s.reply {
                self.reply_plans.entry((contract.to_string(), s.id)).or_default().push_back((**rn).clone());
            }
            subs.push((cm, s));
        }
        if malformed(node) {
            self.fault(&format!("malformed_response_{}", entry));
            return Err(());
        }
        // commit the writes
        self.s.kv.insert(contract.to_string(), kv_after);
        let mut events = vec![entry_event];
        if !node.attrs.is_empty() {
            let mut attrs = vec![(CONTRACT_ATTR.to_string(), contract.to_string())];
            attrs.extend(node.attrs.iter().cloned());
            events.push(Ev { ty: "wasm".into(), attrs });
        }
        for e in &node.events {
            let mut attrs = vec![(CONTRACT_ATTR.to_string(), contract.to_string())];
            attrs.extend(e.attrs.iter().cloned());
            events.push(Ev { ty: format!("wasm-{}", e.ty), attrs });
        }
        let echoed = if node.echo_reply_data { reply.as_ref().filter(|r| r.ok).and_then(|r| r.data.clone()) } else { None };
        let mut data = echoed.or_else(|| node.data.clone());
        if matches!(&data, Some(d) if d.is_empty()) {
            self.probe("present_but_empty_data");
        }
        for (cm, s) in subs {
            let snap = self.s.clone();
            let r = self.exec_msg(contract, &cm, depth + 1);
            let mode = s.reply_on % 4;
            match r {
                Ok(r) => {
                    if mode == 1 || mode == 3 {
                        let info = ReplyInfo { id: s.id, payload: s.payload.clone(), ok: true, events: r.events.clone(), data: r.data.clone() };
                        if mode == 3 {
                            self.probe("reply_always_on_success");
                        }
                        let rr = self.reply(contract, s.id, info, depth)?;
                        events.extend(r.events);
                        events.extend(rr.events);
                        if rr.data.is_some() {
                            data = rr.data;
                            self.probe("data_set_by_reply");
                        }
                    } else {
                        events.extend(r.events);
                    }
                }
                Err(()) => {
                    if self.s != snap {
                        self.probe("failed_subtree_had_effects");
                    }
                    self.s = snap;
                    if self.panicked {
                        return Err(());
                    }
                    if mode == 2 || mode == 3 {
                        self.fault("failure_caught");
                        if depth >= 1 {
                            self.probe("failure_caught_at_depth_ge_2");
                        }
                        if mode == 3 {
                            self.probe("reply_always_on_error");
                        }
                        let info = ReplyInfo { id: s.id, payload: s.payload.clone(), ok: false, events: vec![], data: None };
                        let rr = self.reply(contract, s.id, info, depth)?;
                        events.extend(rr.events);
                        if rr.data.is_some() {
                            data = rr.data;
                        }
                    } else {
                        self.fault("failure_propagated");
                        return Err(());
                    }
                }
            }
        }
        Ok(MResp { events, data })
    }

    fn reply(&mut self, contract: &str, id: u64, info: ReplyInfo, depth: u32) -> Result<MResp, ()> {
        let bare = self.s.contracts.get(contract).and_then(|c| self.codes.get(&c.code_id)).map(|c| c.kind == CodeKind::WrappedBare).unwrap_or(false);
        if bare {
            // no reply entry point: nothing runs (and no scripted reply is consumed); the failure is the
            // dispatching call's
            self.fault("entry_point_missing");
            self.probe("reply_entry_point_missing");
            return Err(());
        }
        let node = match self.reply_plans.get_mut(&(contract.to_string(), id)) {
            Some(q) => q.pop_front().unwrap_or_default(),
            None => Node::default(),
        };
        let mode = if info.ok { "handle_success" } else { "handle_failure" };
        let e = ev("reply", &[(CONTRACT_ATTR, contract), ("mode", mode)]);
        let r = self.call(contract, "reply", "", &[], &node, Some(info), e, depth);
        if r.is_err() {
            self.probe("failure_inside_reply");
        }
        r
    }
}
