pub mod chain;
