//! Name resolution shared by the scripted contracts (real side) and the reference model:
//! slots -> addresses / code ids / validators / denominations, symbolic amounts -> numbers,
//! resolved message -> CosmosMsg.

use crate::ops::*;
use cosmwasm_std::{
    coin, AnyMsg, BankMsg, Binary, Coin, CosmosMsg, CustomMsg, CustomQuery, DistributionMsg, Empty,
    GovMsg, IbcMsg, StakingMsg, VoteOption, WasmMsg,
};
use schemars::JsonSchema;
use serde::{Deserialize, Serialize};
use std::collections::BTreeMap;

#[derive(Serialize, Deserialize, Clone, Debug, PartialEq, JsonSchema, Default)]
pub struct SimMsg {
    pub tag: String,
}
impl CustomMsg for SimMsg {}

#[derive(Serialize, Deserialize, Clone, Debug, PartialEq, JsonSchema, Default)]
pub struct SimQuery {
    pub tag: String,
}
impl CustomQuery for SimQuery {}

/// Whether a chain message type can carry the chain's custom message.
pub trait MakeCustom: CustomMsg + Sized {
    fn custom(tag: &str) -> Option<Self>;
}
impl MakeCustom for SimMsg {
    fn custom(tag: &str) -> Option<Self> {
        Some(SimMsg { tag: tag.to_string() })
    }
}
impl MakeCustom for Empty {
    fn custom(_tag: &str) -> Option<Self> {
        None
    }
}

pub trait MakeCustomQuery: CustomQuery + Sized {
    fn custom(tag: &str) -> Option<Self>;
}
impl MakeCustomQuery for SimQuery {
    fn custom(tag: &str) -> Option<Self> {
        Some(SimQuery { tag: tag.to_string() })
    }
}
impl MakeCustomQuery for Empty {
    fn custom(_tag: &str) -> Option<Self> {
        None
    }
}

pub const INVALID_ADDR: &str = "Not-A-Valid-Address!";

/// The naming context of one run (everything out-of-band that names resolve against).
#[derive(Clone, Debug, Default)]
pub struct Names {
    pub prefix: String,
    pub accounts: Vec<String>,
    pub ghosts: Vec<String>,
    pub slots: BTreeMap<u32, String>,
    pub validators: Vec<String>,
    pub codes: Vec<u64>,
    pub denoms: Vec<String>,
    pub root_keys: Vec<Vec<u8>>,
    /// address of the next plain instantiation, as predicted before the current step
    pub next_addr: Option<String>,
}

impl Names {
    pub fn target(&self, t: &Target, self_addr: &str) -> String {
        match t {
            Target::Account(i) => {
                if self.accounts.is_empty() {
                    self.ghost(1000 + *i)
                } else {
                    self.accounts[*i as usize % self.accounts.len()].clone()
                }
            }
            Target::Contract(s) => match self.slots.get(s) {
                Some(a) => a.clone(),
                None => self.ghost(2000 + *s),
            },
            Target::Ghost(n) => self.ghost(*n),
            Target::Invalid => INVALID_ADDR.to_string(),
            Target::SelfAddr => self_addr.to_string(),
            Target::Next => self.next_addr.clone().unwrap_or_else(|| self.ghost(3000)),
        }
    }

    pub fn ghost(&self, n: u32) -> String {
        // pre-computed pool of valid addresses that never hold a contract
        self.ghosts[n as usize % self.ghosts.len()].clone()
    }

    pub fn code_id(&self, slot: u32) -> u64 {
        match self.codes.get(slot as usize) {
            Some(id) => *id,
            // never stored: mostly a large unused id, sometimes the invalid id 0
            None => {
                if slot % 4 == 3 {
                    0
                } else {
                    900_000 + slot as u64
                }
            }
        }
    }

    pub fn validator(&self, v: u32) -> String {
        match self.validators.get(v as usize) {
            Some(a) => a.clone(),
            None => format!("ghostvaloper{}", v),
        }
    }

    pub fn denom(&self, d: u32) -> String {
        match self.denoms.get(d as usize) {
            Some(a) => a.clone(),
            // a denomination nobody ever holds; every other one has a name no real chain would accept
            // (two bytes, leading digit)
            None => {
                if d % 2 == 0 {
                    format!("{}g", d % 10)
                } else {
                    format!("ghostdenom{}", d)
                }
            }
        }
    }

    pub fn key(&self, k: &KeySpec) -> Vec<u8> {
        match k {
            KeySpec::Lit(b) => b.clone(),
            KeySpec::Long { byte, len } => vec![*byte; (*len).min(100_000) as usize],
            KeySpec::RootSuffix { idx, cut } => {
                if self.root_keys.is_empty() {
                    return vec![0xee];
                }
                let rk = &self.root_keys[*idx as usize % self.root_keys.len()];
                let c = (*cut as usize) % (rk.len() + 1);
                rk[c..].to_vec()
            }
        }
    }

    pub fn coins(&self, specs: &[CoinSpec], balance: &dyn Fn(&str) -> u128) -> Vec<(String, u128)> {
        specs
            .iter()
            .map(|c| {
                let d = self.denom(c.denom);
                let b = balance(&d);
                let a = match c.amt {
                    Amt::Abs(n) => n as u128,
                    Amt::All => b,
                    Amt::AllPlus(n) => b + n as u128,
                    Amt::Half => b / 2,
                    Amt::Zero => 0,
                };
                (d, a)
            })
            .collect()
    }
}

/// A message with every name resolved (node scripts still symbolic).
#[derive(Clone, Debug, PartialEq)]
pub enum CMsg {
    Exec { contract: String, node: Node, funds: Vec<(String, u128)> },
    Inst { code_id: u64, slot: u32, node: Node, funds: Vec<(String, u128)>, label: String, admin: Option<String>, salt: Option<Vec<u8>> },
    Migrate { contract: String, code_id: u64, node: Node },
    UpdateAdmin { contract: String, admin: String },
    ClearAdmin { contract: String },
    Send { to: String, coins: Vec<(String, u128)> },
    Burn { coins: Vec<(String, u128)> },
    Delegate { validator: String, coin: (String, u128) },
    Undelegate { validator: String, coin: (String, u128) },
    Redelegate { src: String, dst: String, coin: (String, u128) },
    SetWithdraw { to: String },
    Withdraw { validator: String },
    FundPool { coins: Vec<(String, u128)> },
    Custom { tag: String },
    Ibc { tag: String },
    Gov { n: u64 },
    Stargate { tag: String, value: Vec<u8> },
    Any { tag: String, value: Vec<u8> },
}

pub fn resolve_msg(names: &Names, m: &MsgSpec, self_addr: &str, balance: &dyn Fn(&str) -> u128) -> CMsg {
    let one = |c: &CoinSpec| names.coins(std::slice::from_ref(c), balance).remove(0);
    match m {
        MsgSpec::Exec { target, node, funds } => CMsg::Exec {
            contract: names.target(target, self_addr),
            node: (**node).clone(),
            funds: names.coins(funds, balance),
        },
        MsgSpec::Inst { code, slot, node, funds, label, admin, salt } => CMsg::Inst {
            code_id: names.code_id(*code),
            slot: *slot,
            node: (**node).clone(),
            funds: names.coins(funds, balance),
            label: label.clone(),
            admin: admin.as_ref().map(|a| names.target(a, self_addr)),
            salt: salt.clone(),
        },
        MsgSpec::Migrate { target, code, node } => CMsg::Migrate {
            contract: names.target(target, self_addr),
            code_id: names.code_id(*code),
            node: (**node).clone(),
        },
        MsgSpec::UpdateAdmin { target, admin } => CMsg::UpdateAdmin {
            contract: names.target(target, self_addr),
            admin: names.target(admin, self_addr),
        },
        MsgSpec::ClearAdmin { target } => CMsg::ClearAdmin { contract: names.target(target, self_addr) },
        MsgSpec::Send { to, coins } => CMsg::Send { to: names.target(to, self_addr), coins: names.coins(coins, balance) },
        MsgSpec::Burn { coins } => CMsg::Burn { coins: names.coins(coins, balance) },
        MsgSpec::Delegate { val, coin } => CMsg::Delegate { validator: names.validator(*val), coin: one(coin) },
        MsgSpec::Undelegate { val, coin } => CMsg::Undelegate { validator: names.validator(*val), coin: one(coin) },
        MsgSpec::Redelegate { src, dst, coin } => {
            // redelegating zero is not constrained by the statements: never generated
            let mut c = one(coin);
            c.1 = c.1.max(1);
            CMsg::Redelegate { src: names.validator(*src), dst: names.validator(*dst), coin: c }
        }
        MsgSpec::SetWithdraw { to } => CMsg::SetWithdraw { to: names.target(to, self_addr) },
        MsgSpec::Withdraw { val } => CMsg::Withdraw { validator: names.validator(*val) },
        MsgSpec::FundPool { coins } => CMsg::FundPool { coins: names.coins(coins, balance) },
        MsgSpec::Custom { tag } => CMsg::Custom { tag: tag.clone() },
        MsgSpec::Ibc { tag } => CMsg::Ibc { tag: tag.clone() },
        MsgSpec::Gov { n } => CMsg::Gov { n: *n },
        MsgSpec::Stargate { tag, value } => CMsg::Stargate { tag: tag.clone(), value: value.clone() },
        MsgSpec::Any { tag, value } => CMsg::Any { tag: tag.clone(), value: value.clone() },
    }
}

pub fn to_coins(cs: &[(String, u128)]) -> Vec<Coin> {
    cs.iter().map(|(d, a)| coin(*a, d.clone())).collect()
}

pub fn node_binary(n: &Node) -> Binary {
    if n.empty_msg {
        return Binary::default();
    }
    Binary::new(serde_json::to_vec(n).expect("node serialises"))
}

/// None = this chain message type cannot express the message (custom message from an
/// Empty-typed contract): the sub-message is omitted, on both the real and the model side.
#[allow(deprecated)]
pub fn to_cosmos<C: MakeCustom>(m: &CMsg) -> Option<CosmosMsg<C>> {
    Some(match m {
        CMsg::Exec { contract, node, funds } => WasmMsg::Execute {
            contract_addr: contract.clone(),
            msg: node_binary(node),
            funds: to_coins(funds),
        }
        .into(),
        CMsg::Inst { code_id, node, funds, label, admin, salt, .. } => match salt {
            None => WasmMsg::Instantiate {
                admin: admin.clone(),
                code_id: *code_id,
                msg: node_binary(node),
                funds: to_coins(funds),
                label: label.clone(),
            }
            .into(),
            Some(s) => WasmMsg::Instantiate2 {
                admin: admin.clone(),
                code_id: *code_id,
                msg: node_binary(node),
                funds: to_coins(funds),
                label: label.clone(),
                salt: Binary::new(s.clone()),
            }
            .into(),
        },
        CMsg::Migrate { contract, code_id, node } => WasmMsg::Migrate {
            contract_addr: contract.clone(),
            new_code_id: *code_id,
            msg: node_binary(node),
        }
        .into(),
        CMsg::UpdateAdmin { contract, admin } => WasmMsg::UpdateAdmin {
            contract_addr: contract.clone(),
            admin: admin.clone(),
        }
        .into(),
        CMsg::ClearAdmin { contract } => WasmMsg::ClearAdmin { contract_addr: contract.clone() }.into(),
        CMsg::Send { to, coins } => BankMsg::Send { to_address: to.clone(), amount: to_coins(coins) }.into(),
        CMsg::Burn { coins } => BankMsg::Burn { amount: to_coins(coins) }.into(),
        CMsg::Delegate { validator, coin: c } => StakingMsg::Delegate { validator: validator.clone(), amount: coin(c.1, c.0.clone()) }.into(),
        CMsg::Undelegate { validator, coin: c } => StakingMsg::Undelegate { validator: validator.clone(), amount: coin(c.1, c.0.clone()) }.into(),
        CMsg::Redelegate { src, dst, coin: c } => StakingMsg::Redelegate {
            src_validator: src.clone(),
            dst_validator: dst.clone(),
            amount: coin(c.1, c.0.clone()),
        }
        .into(),
        CMsg::SetWithdraw { to } => DistributionMsg::SetWithdrawAddress { address: to.clone() }.into(),
        CMsg::Withdraw { validator } => DistributionMsg::WithdrawDelegatorReward { validator: validator.clone() }.into(),
        CMsg::FundPool { coins } => DistributionMsg::FundCommunityPool { amount: coins.iter().map(|(d, a)| cosmwasm_std::coin(*a, d.clone())).collect() }.into(),
        CMsg::Custom { tag } => CosmosMsg::Custom(C::custom(tag)?),
        CMsg::Ibc { tag } => CosmosMsg::Ibc(IbcMsg::CloseChannel { channel_id: tag.clone() }),
        CMsg::Gov { n } => CosmosMsg::Gov(GovMsg::Vote { proposal_id: *n, option: VoteOption::Yes }),
        CMsg::Stargate { tag, value } => CosmosMsg::Stargate { type_url: tag.clone(), value: Binary::new(value.clone()) },
        CMsg::Any { tag, value } => CosmosMsg::Any(AnyMsg { type_url: tag.clone(), value: Binary::new(value.clone()) }),
    })
}

pub fn coins_string(cs: &[(String, u128)]) -> String {
    cs.iter().map(|(d, a)| format!("{}{}", a, d)).collect::<Vec<_>>().join(",")
}
