#!/bin/bash
# Offline release build of the simulator against /repo's current working tree.
set -e
cd /verif/sim
export CARGO_NET_OFFLINE=true
cargo build --release --offline 2>&1 | tail -3
